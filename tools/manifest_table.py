# table of claimed checks (exec'd by mkmanifest.py)
_PENDING = "check not built yet in this round (planned in DESIGN.md section 3)"
for _p in ["C01","C02","C03","C04","C05","C06","C07","C10","C11","C12","C13","C14","C15","C16","C17","C18","C20"]:
    NA[_p] = _PENDING
NA["C08"] = "indexer soundness/completeness is a whole-program greedy floating-point search over hundreds of peaks with data-dependent loops; no bounded symbolic encoding within reach (kernels it calls are covered by C05, C06, C07). DESIGN.md section 5."
NA["C09"] = "convergence of a Nelder-Mead simplex refinement on simulated data is a property of an iterative optimiser; no bounded symbolic encoding is meaningful. DESIGN.md section 5."

chk("C19", "other",
    "Unbounded validity queries (z3 NRA) over the real geometry functions executed on symbolic reals: all conversion pairs are exact inverses, in-beam dty <=> lab y = 0, mask/discretisation variants agree, shift/pad formulas. No size bound: the functions are loop-free and elementwise.",
    "Real-arithmetic model (IEEE rounding outside the claim); sin/cos as constrained fresh pairs; np.round as round-half-even on reals; module np replaced by a proxy for round/ceil/abs. The iradon/reconstruction sentences of C19 are NOT covered (FFT behind a C boundary).",
    "symbolic execution of the Python source (pysym) + z3 validity queries, counterexamples replayed on the real functions", "DESIGN.md 3/C19", "pysym")

chk("C06", "other",
    "Bounded symbolic execution of the real C kernels (clang IR of src/closest.c) for 0..3 symbolic peaks with all matrix entries, g-vector components and the tolerance free reals: every path is checked by z3 against the mathematical definition (count, mean squared error, R, H, UB.H=R, result = UB^-1, unchanged iff singular) and against the Python reference calc_drlv2 executed symbolically; inverse3x3 as a unit. A bit-exact QF_FP lemma justifies the magic-number rounding.",
    "Real-arithmetic model; products abstracted by an uninterpreted commutative function for the count equivalence; rounding abstracted to 'within 1/2 of h' and R/H/UB cut to fresh matrices in the refinement harness (over-approximations); <=3 peaks per query; tol in (0,1/2]. indexing.refine (Python LSQ) is not encoded; integer overflow needing >2^31 accumulations is outside the bound.",
    "symbolic execution of LLVM IR (llsym) + symbolic execution of the Python reference (pysym) + z3 per-path validity queries; abstract counterexamples confirmed on the rebuilt kernel through ctypes", "DESIGN.md 3/C06", "llsym+pysym")
del NA["C06"]

chk("C07", "other",
    "Inductive step + bounded composition + unbounded race-freedom query, all on the real code: one call of score_and_assign (clang IR) from an arbitrary symbolic pre-state implements the min-update; 3 grains x 2-3 peaks composed in every grain order end at the first arg-min / -1 / minimum error and are order independent apart from ties; the real Python driver fight_over_peaks and myhistogram are executed symbolically; the OpenMP loop body's two abstract iterations kA != kB never alias (z3, no bound on ng, chunk size or threads).",
    "Real-arithmetic model; per-peak error cut to a free real at the store to the C local sumsq (its definition is a separate obligation); OpenMP runtime contract (static schedule, reduction) trusted; sequential consistency; refinegrains.assignlabels is mirrored as a call protocol (per-grain g-vectors = free errors), not executed.",
    "symbolic execution of LLVM IR (llsym, sequential and -fopenmp outlined) + pysym on the Python driver + z3; alias/footprint queries for schedule independence; confirmation on the rebuilt OpenMP kernel", "DESIGN.md 3/C07, 2.9", "llsym+pysym")
del NA["C07"]

chk("C11", "other",
    "Bounded exhaustive symbolic execution of the real labelling kernels (clang IR): symbolic pixel values and threshold, so that every threshold pattern of every shape in the bound (2x2 ... 3x3 quick, ... 3x4 thorough) is one solver-checked path set; labels are compared with a graph oracle on each (background, partition, 1..n, count), dense 8/4, sparse and splat on the same pixels; sparse kernels with symbolic sorted coordinates against a solver-quantified reachability relation; the union-find growth (realloc) path as a unit; relabel loop race-freedom by alias queries.",
    "Images up to 3x4 and sparse nnz <= 3 (quick) / 4 (thorough) on a 3x3/4x4 grid; capacities 4..8 stand in for the 16384-entry label table (same code, smaller constant); pixel values as reals; allocation never fails; splat receives zeroed labels as its Python caller provides.",
    "symbolic execution of LLVM IR (llsym) with z3 path feasibility, per-path graph oracle / z3 reachability queries, violating models replayed on the rebuilt kernels through ctypes", "DESIGN.md 3/C11", "llsym")
del NA["C11"]

chk("C12", "other",
    "Units add_pixel / merge / compute_moments proved equal to their definitions on fully symbolic 36-field rows (unbounded in values); with those definitions substituted, the labelimage call protocol (connectedpixels, blobproperties, bloboverlaps, moments, output rule) is executed from clang IR on symbolic frames: every threshold pattern of 2-3 frames of 2x2 (thorough: up to 4 frames / 2x3 / 1x4) is one path set on which the written 3D peaks are matched one-to-one with voxel-graph components (count, sums, centroids, max pixel, bounding box) by z3; bloboverlaps as a unit on all raster-ordered label pairs of 1x4 images with symbolic rows.",
    "Frames <= 2x3, <= 4 frames; concrete distinct omega values in the protocol harness (symbolic omega in the units); threshold >= 0; real-arithmetic model; the Python driver's file writing and spline correction are mirrored/not covered.",
    "symbolic execution of LLVM IR (llsym) with proved specifications substituted at unit boundaries + z3 per-path matching queries; models replayed through ctypes on the rebuilt kernels", "DESIGN.md 3/C12", "llsym")
del NA["C12"]

chk("C13", "other",
    "Bounded symbolic execution of the real kernels plus bounded interleaving exploration: neighbormax and the sequential labelling on symbolic 3x3..4x3 (thorough 4x4, 3x5) images with arbitrary previous buffer contents (every ordering pattern = one solver-checked path set, steepest-ascent oracle); sparse kernel with symbolic sorted coordinates against a solver-quantified ascent relation; OpenMP row loops by alias queries (unbounded); the hand-rolled parallel walk executed from the real -fopenmp outlined IR by two abstract threads over every schedule within 2 (thorough 3) context switches, with symbolic stale labels, for team < omp_get_max_threads too.",
    "Sequential consistency (a flush is a no-op in the model); 2 threads; <=3 context switches; small images; 'no equal-valued neighbours' read as distinct pixels within every 3x3 window; real-build confirmation of a model race is a stress run (not a forced schedule).",
    "symbolic execution of LLVM IR (llsym) + greenlet-based bounded schedule exploration of the OpenMP outlined region + z3; confirmation on the rebuilt OpenMP kernel", "DESIGN.md 3/C13, 2.9", "llsym")
del NA["C13"]

chk("C14", "other",
    "Bounded symbolic execution of the real sparse-image kernels (clang IR): mask_to_coo on every int8 mask content of 2x2/2x3 (3x3 thorough) images, tosparse_u16/u32/f32 with symbolic pixels over the full machine range, symbolic mask and cut, sparse_is_sorted / sparse_overlaps / coverlaps with symbolic sorted coordinates over the full uint16 range (modular arithmetic modelled), compress_duplicates with symbolic labels: per path the outputs are compared with the definition by z3 (selected pixels in strict row-major order, exact pair counts for the linear and for the matrix algorithm against one specification). sparse_frame.sort/mask executed on frames with symbolic pixel values.",
    "Images <= 3x3, frames <= 4 pixels, labels 1..2; documented preconditions (sorted duplicate-free coordinates, no label 0 in coverlaps, 0 <= cut <= type max); to_dense (scipy.sparse) and the HDF5 round trip not covered; overlaps_linear/overlaps_matrix Python plumbing not executed (their kernels are).",
    "symbolic execution of LLVM IR (llsym) + z3 per-path validity queries; counterexample models replayed on the rebuilt kernels through ctypes", "DESIGN.md 3/C14", "llsym+pysym")
del NA["C14"]

chk("C20", "other",
    "Checked-memory symbolic execution of (almost) every exported kernel from clang IR: exactly-sized objects as the f2py interface passes them, symbolic contents inside the documented preconditions, boundary shapes (2x2..3x2 images, sparse nnz 0..3 incl. first/last row and column and empty rows, 0..2 peaks/labels, nhist 1..3); every load/store is bounds-, lifetime- and initialisation-checked with z3 deciding symbolic offsets (modular integer arithmetic modelled); promised outputs must be fully written. Model events are confirmed with a generated C driver on the real sources under clang ASan+UBSan (valgrind for uninitialised use) before being reported.",
    "Bounded shapes; real-arithmetic floats (float32 rounding and NaN/Inf inputs outside the model, so an index that only overflows through rounding is not seen); float-to-int range events reported separately; OpenMP regions with sequential semantics here (races in C07/C11/C13); splat not driven; allocation never fails.",
    "symbolic execution of LLVM IR with a checked memory model (llsym) + z3; ASan/UBSan/valgrind replay of model events", "DESIGN.md 3/C20", "llsym")
del NA["C20"]

chk("C17", "other",
    "Bounded symbolic execution of operation histories of the real columnfile class: cells are symbolic reals, filter masks / sort keys / removed values are symbolic and fork through z3, every sequence of <= 2 (thorough 3) operations plus a probing step over a 17-operation alphabet from dict-built, file-loaded and empty states; after every operation the representation invariant (one column per title, nrows entries, attribute/item/getcolumn views equal and the same storage), agreement with a row-wise shadow model (same selection/permutation in every column) and storage independence of copies are checked; violating sequences are replayed on the real class with float columns.",
    "Depth bound 2-3 (+1); <= 3 columns x <= 3 rows; object-dtype arrays stand in for float arrays; removerows in tolerance mode; a columnfile without columns is outside the claim; HDF-loaded start states not executed (IO).",
    "symbolic execution of the Python class (pysym values, solver-decided forks) with exhaustive bounded operation sequences + shadow-model comparison; concrete replay", "DESIGN.md 3/C17", "pysym")
del NA["C17"]

chk("C16", "other",
    "Exhaustive concrete check of the group axioms on the operator lists the real generator code produces (all ten groups, all products) plus z3 proofs of o.G.o^T = G on the symbolic metric of each conforming cell; find_uniq_u is if-converted from its current source (AST transformation) and executed by pysym on a symbolic 3x3 UBI so that each result entry is one term: member-of-orbit and maximal trace for ALL real UBIs, orbit invariance under every pre-applied operator and idempotence under the unique-maximum hypothesis are z3 validity queries (linear real arithmetic); find_uniq_hkls likewise for all integer hkl with |h|<=499.",
    "Real-arithmetic model; the if-conversion is a trusted source transformation (recorded in the evidence); exact ties of the maximal trace are excluded by hypothesis and reported as a known finding; quick tier pre-applies a subset of the operators of the 12- and 24-element groups (all in thorough).",
    "AST if-conversion + symbolic execution of the Python source (pysym) + z3 validity queries; exhaustive finite group checks; counterexamples replayed on the real functions", "DESIGN.md 3/C16", "pysym")
del NA["C16"]

chk("C03", "other",
    "Centring rules: CrossHair (symbolic execution of Python ints with z3) confirms every rule reached through the real outif table against the International-Tables condition for ALL integer hkl, with a reachability twin per rule. gethkls: the real method (final sort removed by an AST cut) is executed by pysym on symbolic reciprocal metrics of the orthogonal cell family with a symbolic d* limit (index box 1, thorough 2; monoclinic-b family as a thorough stretch obligation): each path lists concrete hkl and z3 decides whether an allowed reflection of the box below the limit is missing or a listed one is forbidden / not below the limit / duplicated / carries the wrong d*. makerings: executed on an arbitrary ascending list of <=4 (5) symbolic d* values and a symbolic tolerance.",
    "Real-arithmetic model; sqrt compared through its radicand; orthogonal (and monoclinic-b) metric families only: general triclinic metrics are not covered symbolically; index box <= 2; the ordering of the final list is list.sort (cut).",
    "CrossHair + symbolic execution of the Python source (pysym) with solver-quantified completeness/soundness oracle; counterexamples replayed on the real unitcell class against brute force", "DESIGN.md 3/C03", "crosshair+pysym")
del NA["C03"]

chk("C15", "other",
    "Rely/guarantee step on the real loop body of numbalabelNd (extracted from the current source by an AST transformation, executed by pysym): from an arbitrary state in which every read of the shared label array returns ANY label the component invariant allows, every write keeps the label inside its component and not above its node, both ends get the smaller label, and a write happens iff the change counter is incremented - an unbounded-graph, any-interleaving argument for 'labels stay in their component and a zero sweep means all edges agree'. Every prange loop of the merging kernels is checked by alias queries on two abstract iterations. find_ND_labels, get_clean_labels and numbapkmerge (+ the weighted means of pk2dmerge) are executed on all small cases with symbolic edges / labels / peak values.",
    "numba compiles py_func's semantics (trusted); termination of the sweep under racy interleavings is not claimed; bounded parts: <=4 (5) nodes, <=3 (4) edges, <=3 (4) peaks; integers unbounded (no overflow modelling); pks_table.pk2dmerge's dictionary wiring is mirrored and its source pattern checked.",
    "AST loop-step extraction + symbolic execution of the Python kernel bodies (pysym) with rely/guarantee havoc proxies + z3; confirmation on the jitted kernels in a subprocess", "DESIGN.md 3/C15, 2.9", "pysym")
del NA["C15"]
NA["C18"] = "persistence is string formatting/parsing through CPython built-ins (float<->decimal), file IO and HDF5: CrossHair (probed: contracts on parameters.saveparameters/loadparameters with symbolic names and ints) finds counterexamples (name 'a-b' comes back as 'a_b' in 9 s) but returns 'Not confirmed' on every positive contract, even for 1-character names, within 60-90 s; no encoding that DECIDES the round trip is within reach, so the property is not claimed (DESIGN.md section 5)"

chk("C04", "other",
    "Unbounded z3 validity queries over the real constructors/properties executed symbolically (pysym): on a symbolic cell the B matrices of unitcell.__init__, tensor_map.unitcell_to_b and point_by_point.ubi_and_ucell_to_u are equal entry by entry, B is upper triangular with positive diagonal, g.gi = I and B^T B = gi (five of six entries; (1,2) stretch); on a symbolic right-handed UBI the metric and cell extraction of grain, indexing, tensor_map and point_by_point agree, ubi.UB = I, the cell reproduces the metric, rmt.mt = I (metric abstracted), U orthogonal (stretch). TensorMap's derived-map cache is explored over every history of <=3 (4) property reads / UBI replacements on a symbolic voxel. NaN voxels stay NaN (concrete).",
    "Real-arithmetic model with constrained sin/cos pairs and acos/cos cancellation for |q|<=1; inverse as adjugate/determinant; indexing.ubitoB (cholesky), xfab's Rodrigues vector and numba's gufunc broadcasting are outside the claim; the stretch obligations (B^T B (1,2), U^T U = I) are reported separately and may stay undecided.",
    "symbolic execution of the Python / numba py_func source (pysym) + z3 NRA validity queries with cut-point staging; bounded history exploration of the cache; counterexamples replayed on the real objects", "DESIGN.md 3/C04", "pysym")
del NA["C04"]

chk("C10", "other",
    "Unbounded z3 NRA validity queries over the real finite-strain code executed symbolically (pysym): with the deformation gradient cut to F = R.S0 (symbolic symmetric stretch, rotation Rx.Ry.Rz from constrained sin/cos pairs) the even-exponent Seth-Hill tensors equal (S0^2m - I)/2m in the reference frame and R.E.R^T in the lab frame for every rotation, are symmetric and vanish for S0 = I; F = ubi^T.ub0^T wiring; grain wrappers pass a reference grain's UB; with numpy's svd as a contract stub the SVD routes are shown to build the textbook polar decomposition and the Biot / 3/2 / logarithmic tensors from its factors; the tensor_map kernels feed the same F (their inlined B copy equals unitcell.B) and post-process identically; frame rotations and e6 packing; TensorMap's derived strain routes rotate in the right direction.",
    "Real-arithmetic model; svd contract and the polar-decomposition theorem trusted; m = -1, -0.5 (matrix inverses) and 'first-order agreement for all m' not covered; the monolithic rotation round trip is a stretch obligation.",
    "symbolic execution of the Python / numba py_func source (pysym) + z3 NRA validity queries with cut-point staging and contract stubs; replay against an eigen-decomposition Seth-Hill reference on the real code", "DESIGN.md 3/C10", "pysym")
del NA["C10"]

chk("C05", "other",
    "Unbounded z3 NRA lemmas over the real code: quickorient (clang IR, llsym) on arbitrary non-collinear g1, g2 gives an orthonormal triad M with M.g1 = (|g1|,0,0), M.g2 = (g1.g2/|g1|, -|g1 x g2|/|g1|, 0), det M = -1 and UBI_out = BT.M; BTmat (real Python, pysym) on arbitrary non-collinear vectors gives an orthonormal triad of the same handedness with the same component formulas; for each hkl pair and a symbolic upper-triangular B, BTmat(h1,h2,B,BI) = BI.[triad of (B.h1, B.h2)] and BI.(B.h) = h; a congruence (glue) query shows that equal Gram matrices give equal components. Hence UBI.g1 = h1, UBI.g2 = h2, UBI.UBI^T = BI.BI^T, det UBI > 0 for every cell and every orientation.",
    "First sentence of C05 only: the candidate-list sentence (filter_pairs, ubi_equiv, getanglehkls: clustering of floating-point cosines on concrete lattices) is NOT covered; hkl pairs from a fixed list (5 quick, 12 thorough); real-arithmetic model; the composition of the lemmas is a congruence argument (its scalar core is a solver query, the rest prose).",
    "symbolic execution of LLVM IR (llsym) and of the Python source (pysym) with a shared sqrt context + z3 NRA lemma queries (cut-point staging); replay on the rebuilt kernel with random cells and rotations", "DESIGN.md 3/C05", "llsym+pysym")
del NA["C05"]
