# table of claimed checks (exec'd by mkmanifest.py)
_PENDING = "check not built yet in this round (planned in DESIGN.md section 3)"
for _p in ["C01","C02","C03","C04","C05","C06","C07","C10","C11","C12","C13","C14","C15","C16","C17","C18","C20"]:
    NA[_p] = _PENDING
NA["C08"] = "indexer soundness/completeness is a whole-program greedy floating-point search over hundreds of peaks with data-dependent loops; no bounded symbolic encoding within reach (kernels it calls are covered by C05, C06, C07). DESIGN.md section 5."
NA["C09"] = "convergence of a Nelder-Mead simplex refinement on simulated data is a property of an iterative optimiser; no bounded symbolic encoding is meaningful. DESIGN.md section 5."

chk("C19", "other",
    "Unbounded validity queries (z3 NRA) over the real geometry functions executed on symbolic reals: all conversion pairs are exact inverses, in-beam dty <=> lab y = 0, mask/discretisation variants agree, shift/pad formulas. No size bound: the functions are loop-free and elementwise.",
    "Real-arithmetic model (IEEE rounding outside the claim); sin/cos as constrained fresh pairs; np.round as round-half-even on reals; module np replaced by a proxy for round/ceil/abs. The iradon/reconstruction sentences of C19 are NOT covered (FFT behind a C boundary).",
    "symbolic execution of the Python source (pysym) + z3 validity queries, counterexamples replayed on the real functions", "DESIGN.md 3/C19", "pysym")
