#!/bin/bash
# tools/mutscratch.sh <patch> <check id> [tier] : like mutcheck.sh, but on a scratch copy of /repo's working tree (so /repo is never touched and
# several mutants can be checked while other checks run); evidence and replays go to the scratch directory, which is removed afterwards.
set -u
P=$(readlink -f "$1"); ID=$2; TIER=${3:-quick}
D=$(mktemp -d /tmp/mutscr_XXXXXX); mkdir -p $D/r $D/ev
rsync -a --exclude .git --exclude build /repo/ $D/r/ && cd $D/r && patch -s -p1 < "$P" || { echo "patch does not apply"; rm -rf $D; exit 9; }
cd /verif && VERIF_REPO=$D/r VERIF_EVIDENCE_DIR=$D/ev timeout -k 10 ${MUT_TIMEOUT:-1200} ./check $ID --tier $TIER > $D/log 2>&1; rc=$?
echo "== $P on $ID ($TIER, scratch copy): exit $rc"; grep -E "^VIOLATION|^KNOWN|^INCONCLUSIVE|^\[C" $D/log | head -6
cp $D/log /tmp/mutscratch_$ID.log; rm -rf $D
exit $rc
