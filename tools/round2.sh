#!/bin/bash
# tools/round2.sh <seeded ids...> : run each seeded change against its own check on a scratch copy (quick tier)
cd /verif
for s in "$@"; do pid=${s%%-*}; out=$(tools/mutscratch.sh seeded/$s/patch.diff $pid quick 2>&1); rc=$(echo "$out" | head -1 | sed 's/.*exit //'); v=$(echo "$out" | grep -c '^VIOLATION'); echo -e "$s\t$pid\texit=$rc\tviolations=$v\t$(echo "$out" | grep -E '^\[C' | tail -1)"; done
