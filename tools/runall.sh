#!/bin/bash
# tools/runall.sh [quick|thorough] : run every registered check of the tier in turn, one summary line each
TIER=${1:-quick}; cd /verif
for id in $(python3 -c "import json;print(' '.join(c['property_id'] for c in json.load(open('MANIFEST.json'))['checks']))"); do
  s=$(date +%s); ./check $id --tier $TIER > /tmp/runall_${id}_$TIER.log 2>&1; rc=$?
  echo "$id $TIER exit=$rc wall=$(( $(date +%s)-s ))s $(grep -E '^\[C' /tmp/runall_${id}_$TIER.log | tail -1)"
  grep -E "^VIOLATION|^KNOWN-FINDING" /tmp/runall_${id}_$TIER.log | head -3
done
