#!/bin/bash
# tools/seedmatrix.sh [ids...] : run every seeded change against the quick check of its own property; writes seeded/RESULTS.tsv
cd /verif
ids=${@:-$(ls seeded | grep -E '^C[0-9]+-[0-9]+$')}
for s in $ids; do
  pid=${s%-*}
  if [ ! -f props/$pid.py ]; then echo -e "$s\t$pid\tno-check\t-"; continue; fi
  out=$(tools/mutcheck.sh seeded/$s/patch.diff $pid quick 2>&1); rc=$?
  v=$(grep -c '^VIOLATION' /tmp/mutcheck_$pid.log)
  echo -e "$s\t$pid\texit=$rc\tviolations=$v\t$(grep -E '^\[C' /tmp/mutcheck_$pid.log | tail -1)"
done
