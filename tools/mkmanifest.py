#!/usr/bin/env python3
"""Regenerates /verif/MANIFEST.json from the table below (one entry per claimed property)."""
import json, os
V = os.path.dirname(os.path.dirname(os.path.abspath(__file__)))
BASE_OFF = "cd /repo && /venv/bin/python -m pytest -ra -q -p no:cacheprovider --timeout=900 --continue-on-collection-errors"

CHECKS = {}
def chk(pid, category, text, note, technique, design_ref, engine):
    CHECKS[pid] = dict(property_id=pid, quick_cmd="./check %s --tier quick" % pid, thorough_cmd="./check %s --tier thorough" % pid,
                       evidence_file="evidence/%s.json" % pid, replay_cmd_template="./check %s --replay {path}" % pid, engine=engine,
                       level_claimed=dict(category=category, text=text, design_ref=design_ref), level_note=note, technique=technique)

NA = {}
exec(open(os.path.join(V, "tools", "manifest_table.py")).read())

m = dict(version=1, setup_cmd="./setup.sh",
         hooks=dict(guard="IMAGED11_VERIF", enable="no hooks are compiled into /repo; checks read /repo's sources directly (clang IR / python import)",
                    baseline_off_cmd=BASE_OFF, source_commits=[], add_only=True),
         engines=[dict(name="llsym", path="lib/llsym.py", serves_properties=sorted(p for p, c in CHECKS.items() if "llsym" in c["engine"]),
                       kind_free_text="symbolic interpreter of clang-14 -O0 LLVM IR of /repo/src/*.c (ints: z3 Int with overflow checks, floats: z3 Real, checked memory objects), path forking + z3"),
                  dict(name="pysym", path="lib/pysym.py", serves_properties=sorted(p for p, c in CHECKS.items() if "pysym" in c["engine"]),
                       kind_free_text="symbolic execution of the unmodified Python/numba-py_func code on numpy object arrays of z3-backed Sym values, path forking + z3"),
                  dict(name="crosshair", path="props/", serves_properties=sorted(p for p, c in CHECKS.items() if "crosshair" in c["engine"]),
                       kind_free_text="CrossHair 0.0.110 symbolic execution of plain-Python functions (z3)")],
         checks=[CHECKS[k] for k in sorted(CHECKS)],
         not_applicable=[dict(property_id=k, reason=NA[k]) for k in sorted(NA) if k not in CHECKS],
         notes="Solver-based checking of the real code: every check regenerates its encoding from /repo's current tree. Exit 0 = held within the stated bounds, 1 = reproduced violation (VIOLATION line), 3 = inconclusive (solver unknown / model not reproduced). See DESIGN.md.")
json.dump(m, open(os.path.join(V, "MANIFEST.json"), "w"), indent=1)
print("MANIFEST.json:", len(m["checks"]), "checks,", len(m["not_applicable"]), "not applicable")
