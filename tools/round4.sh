#!/bin/bash
# tools/round4.sh <Cxx> : collect /tmp/wt_<Cxx>/_seed into seeded/<Cxx>-r4, drop the worktree, confirm on a scratch copy and run the quick check on a scratch copy
set -u
ID=$1; S=/verif/seeded/$ID-r4; mkdir -p $S
cp /tmp/wt_$ID/_seed/patch.diff /tmp/wt_$ID/_seed/demo.py /tmp/wt_$ID/_seed/meta.json $S/ || exit 9
git -C /repo worktree remove --force /tmp/wt_$ID
( cd /verif && /venv/bin/python tools/confirm_seeded.py $ID-r4 > /tmp/confirm_$ID.log 2>&1 ) &
MUT_TIMEOUT=${MUT_TIMEOUT:-600} /verif/tools/mutscratch.sh $S/patch.diff $ID quick
wait; cat /tmp/confirm_$ID.log
