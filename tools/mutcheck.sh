#!/bin/bash
# tools/mutcheck.sh <patch> <check id> [tier] : apply a seeded change to /repo, run the check, undo the change.
set -u
P=$(readlink -f "$1"); ID=$2; TIER=${3:-quick}
cd /repo || exit 9
if [ -n "$(git status --porcelain --untracked-files=no)" ]; then echo "/repo has uncommitted tracked changes; refusing"; exit 9; fi
git apply "$P" || { echo "patch does not apply"; exit 9; }
cd /verif && ./check $ID --tier $TIER > /tmp/mutcheck_$ID.log 2>&1; rc=$?
git -C /repo checkout -- . 
echo "== $P on $ID: exit $rc"; grep -E "^VIOLATION|^KNOWN|^INCONCLUSIVE|^\[C" /tmp/mutcheck_$ID.log | head -8
exit $rc
