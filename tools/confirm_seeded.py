#!/usr/bin/env python3
"""tools/confirm_seeded.py <seeded id>... : independent confirmation of a seeded change on a scratch copy of /repo (never /repo itself):
demo.py exits 0 on the pristine copy and 1 on the patched copy; the baseline test-suite gives the same passes as on the pristine tree."""
import sys, os, subprocess, json, tempfile, shutil, xml.etree.ElementTree as ET
BASE = json.load(open("/root/.vp/BASELINE.json")); STABLE = set(BASE["stable_pass"])
def sh(cmd, cwd=None, env=None, timeout=3600):
    return subprocess.run(cmd, shell=True, cwd=cwd, env=env, capture_output=True, text=True, timeout=timeout)
for sid in sys.argv[1:]:
    sd = "/verif/seeded/" + sid; d = tempfile.mkdtemp(prefix="confirm_"); r = d + "/r"
    try:
        sh("rsync -a --exclude .git --exclude build /repo/ %s/" % r)
        env = dict(os.environ, PYTHONPATH=r, NUMBA_CACHE_DIR=d + "/numba", OMP_NUM_THREADS="4")
        touches_c = "src/" in open(sd + "/patch.diff").read()
        # /repo's in-place extension module is a build output that may predate the fix: commits to src/*.c: for changes to C the pristine copy is rebuilt too
        if touches_c: sh("/venv/bin/python setup.py build_ext --inplace > %s/build0.log 2>&1" % d, cwd=r)
        p0 = sh("/venv/bin/python %s/demo.py" % sd, cwd=d, env=env)
        a = sh("patch -s -p1 < %s/patch.diff" % sd, cwd=r)
        if touches_c: b = sh("/venv/bin/python setup.py build_ext --inplace > %s/build.log 2>&1" % d, cwd=r)
        p1 = sh("/venv/bin/python %s/demo.py" % sd, cwd=d, env=env)
        t = sh("/venv/bin/python -m pytest -ra -q -p no:cacheprovider --timeout=900 --continue-on-collection-errors --junitxml=%s/j.xml" % d, cwd=r, env=env)
        ok = set()
        for tc in ET.parse(d + "/j.xml").iter("testcase"):
            if not any(c.tag in ("failure", "error", "skipped") for c in tc): ok.add(tc.get("classname") + "::" + tc.get("name"))
        lost = sorted(STABLE - ok); tail = [l for l in t.stdout.strip().split("\n") if " passed" in l or " failed" in l][-1:]
        res = dict(what_i_ran="scratch copy of /repo (rsync): demo.py on the pristine copy, patch -p1, %sdemo.py again, full baseline pytest command" % ("setup.py build_ext --inplace, " if touches_c else ""),
                   patch_applied=a.returncode == 0, demo_pristine_exit=p0.returncode, demo_mutated_exit=p1.returncode, suite=(tail or ["?"])[0], stable_tests_lost=lost, touches_c=touches_c)
        m = json.load(open(sd + "/meta.json")); m["confirmed_by_me"] = res; m.setdefault("author", "independent sub-agent given only the property text and a scratch worktree (round %s)" % ("3" if sid.endswith("r3") else "2"))
        json.dump(m, open(sd + "/meta.json", "w"), indent=1)
        print(sid, "pristine", p0.returncode, "mutated", p1.returncode, res["suite"], "lost:", len(lost), flush=True)
    finally: shutil.rmtree(d, ignore_errors=True)
