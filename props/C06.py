"""
C06 - scoring and least-squares refinement kernels match their mathematical definition.
Decided by: llsym execution of score / score_and_refine / refine_assigned / inverse3x3 from clang's IR of src/closest.c,
pysym execution of indexing.calc_drlv2 as the Python reference, z3 queries per path (DESIGN 3/C06).
"""
import sys, os, math, itertools
sys.path.insert(0, os.path.join(os.path.dirname(os.path.abspath(__file__)), "..", "lib"))
import z3, numpy as np
from fractions import Fraction
import common, symcore, pysym, harness, llsym, creplay
from common import Check, parse_args
from llsym import Module, Interp, Ptr, mkobj, outobj, rd, snapshot, UNINIT
from symcore import CTX, EX
from pysym import Sym, T, symbolize

def zdet(m):
    return (m[0] * (m[4] * m[8] - m[5] * m[7]) - m[1] * (m[3] * m[8] - m[5] * m[6]) + m[2] * (m[3] * m[7] - m[4] * m[6]))
def zadj(m):
    a = [None] * 9
    for i in range(3):
        for j in range(3):
            i1, i2 = (i + 1) % 3, (i + 2) % 3; j1, j2 = (j + 1) % 3, (j + 2) % 3
            a[j * 3 + i] = m[i1 * 3 + j1] * m[i2 * 3 + j2] - m[i1 * 3 + j2] * m[i2 * 3 + j1]
    return a
def R_(v): return symcore.to_real(v) if not isinstance(v, (type(None), llsym.Uninit)) else None

# ------------------------------------------------------------------------------------------------ reference (numpy, for replay)
def reference(ubi, gv, tol=None, labels=None, label=None):
    ubi = np.array(ubi, float).reshape(3, 3); gv = np.array(gv, float).reshape(-1, 3)
    h = ubi @ gv.T; ih = np.rint(h); d = h - ih; drl = (d * d).sum(0)
    sel = (drl < tol * tol) if labels is None else (np.array(labels) == label)
    n = int(sel.sum()); mean = float(drl[sel].mean()) if n else 0.0
    ihs = ih[:, sel]; Hm = ihs @ ihs.T; Rm = gv[sel].T @ ihs.T
    Hi = [[int(round(x)) for x in row] for row in Hm.tolist()]
    detH = (Hi[0][0] * (Hi[1][1] * Hi[2][2] - Hi[1][2] * Hi[2][1]) - Hi[0][1] * (Hi[1][0] * Hi[2][2] - Hi[1][2] * Hi[2][0])
            + Hi[0][2] * (Hi[1][0] * Hi[2][1] - Hi[1][1] * Hi[2][0]))
    if detH == 0: return n, mean, None, "singular-H"
    UB = Rm @ np.linalg.inv(Hm)
    dU = np.linalg.det(UB)
    if dU == 0: return n, mean, None, "singular-UB"
    return n, mean, np.linalg.inv(UB), "refined(det UB=%g)" % dU

def compare_real(kind, ubi, gv, tol, labels=None, label=None, exact=False):
    """run the rebuilt kernel on concrete inputs and compare with the definition. returns list of discrepancies"""
    bad = []
    ubi = np.array(ubi, float).reshape(3, 3); gv = np.array(gv, float).reshape(-1, 3)
    n, mean, want, why = reference(ubi, gv, tol, labels, label)
    # stay away from the decision boundaries (float rounding is outside the claim)
    h = ubi @ gv.T; d = h - np.rint(h); drl = (d * d).sum(0)
    if labels is None and not exact and len(drl) and np.any(np.abs(drl - tol * tol) < 1e-9 * max(1.0, tol * tol)): return ["boundary"], True
    if kind == "score":
        got = creplay.score(ubi, gv, tol)
        if got != n: bad.append("score returned %d, definition gives %d" % (got, n))
        return bad, False
    if kind == "score_and_refine": out, gn, gs = creplay.score_and_refine(ubi, gv, tol)
    else: out, gn, gs = creplay.refine_assigned(ubi, gv, labels, label)
    if gn != n: bad.append("%s count %d, definition gives %d" % (kind, gn, n))
    if not harness.close(gs, mean, 1e-7, 1e-12): bad.append("%s mean drlv2 %r, definition gives %r" % (kind, gs, mean))
    if want is None:
        if not np.array_equal(out, ubi): bad.append("%s: normal equations singular (%s) but the matrix was changed" % (kind, why))
    else:
        cond = np.linalg.cond(want)
        if np.array_equal(out, ubi) and not np.allclose(want, ubi, rtol=1e-9, atol=0):
            bad.append("%s: matrix returned unchanged although the LSQ solution exists (%s)" % (kind, why))
        elif not np.allclose(out, want, rtol=1e-6 * max(1.0, cond), atol=1e-9 * np.abs(want).max()):
            bad.append("%s: refined matrix differs from (sum g h^T)(sum h h^T)^-1 inverse: max abs diff %g" % (kind, np.abs(out - want).max()))
    return bad, False

def witness_family(n, seed):
    """deterministic candidate inputs used only to CONFIRM an abstract counterexample on the real build (never to decide)"""
    rng = np.random.RandomState(seed + 17)
    hk = np.array([[1, 0, 0], [0, 1, 0], [0, 0, 1], [1, 1, 0], [1, -1, 1], [2, 0, 1], [0, 2, -1], [1, 2, 3]], float)
    for scale in (1.0, 3.0, 0.05, 40.0, 150.0, 600.0, 1e-2):
        for noise in (0.0, 0.02):
            a = scale * (np.eye(3) + 0.03 * rng.standard_normal((3, 3)))       # ubi rows ~ real-space cell vectors
            ub = np.linalg.inv(a)
            for m in range(0, len(hk) + 1):
                g = (ub @ hk[:m].T).T + noise / max(scale, 1e-3) * rng.standard_normal((m, 3)) * 0.5
                yield a * (1 + 0.01 * noise), g, 0.1
    # normal equations solvable (the rounded hkl span 3D) while the fitted UB is singular: coplanar g-vectors scored with a tilted matrix
    for tilt in (0.45, 0.3):
        a = np.array([[4.0, 0.0, 0.0], [0.0, 4.0, 0.0], [tilt * 4.0, tilt * 4.0, 4.0]])
        gxy = np.array([[0.25, 0, 0], [0, 0.25, 0], [0.25, 0.25, 0], [0.5, 0.25, 0], [0.25, -0.25, 0], [0.5, 0.5, 0], [0.75, 0.25, 0], [-0.25, 0.5, 0]])
        yield a, gxy, 0.49
        yield a, gxy[:5], 0.49

# ------------------------------------------------------------------------------------------------ harnesses
def main():
    args = parse_args("C06"); ck = Check("C06", args.tier)
    thorough = args.tier == "thorough"
    ir = common.build_ir(["closest"]); mod = Module(); mod.load(ir["closest"])
    import ImageD11.indexing as IDX
    ck.encoded("src/closest.c:inverse3x3", "src/closest.c:score", "src/closest.c:score_and_refine", "src/closest.c:refine_assigned",
               "src/closest.c:conv_double_to_int_fast (macro, (x+MAGIC)-MAGIC)", "ImageD11/indexing.py:calc_drlv2")
    NMAX = 3 if thorough else 2
    ck.bound("score: 0..%d symbolic peaks; score_and_refine / refine_assigned: 0..3 symbolic peaks (accumulators are sums: a further peak adds no new control flow)" % NMAX,
             "all 9 UBI entries, all g-vector components and tol are free reals; tol in (0, 1/2]",
             "peak counts beyond the bound, and IEEE rounding of the arithmetic, are outside the claim")
    ck.assume("real-arithmetic model (DESIGN 2.8); the magic-number rounding (x+6755399441055744.0)-6755399441055744.0 is round-half-even "
              "for |x| <= 2^51 (lemma L-MAGIC, lemmas/magic.smt2, checked in QF_FP on every run)",
              "score vs Python reference: products of two symbolic reals are an uninterpreted commutative function on both sides (umul), squares usq(|x|)",
              "score_and_refine: the rounded index is abstracted to 'a real within 1/2 of h' (over-approximation) and R, H, UB are cut to fresh matrices at the inverse3x3 calls",
              "allocation/IO free code; printf absent")
    ck.trust("z3 5.1.0", "clang-14 -O0 IR is a faithful lowering of closest.c", "llsym interpreter (validated on the repo's test vectors)")

    # ---- L-MAGIC lemma (bit exact, QF_FP) and the constant actually present in the IR
    lemma_magic(ck, ir["closest"])

    # ---- H1: inverse3x3 as a unit
    def run_inv():
        symcore.RNE_MODE[0] = "toint"; llsym.MULMODE[0] = "nra"
        it = Interp(mod); A = [z3.Real("a%d" % i) for i in range(9)]
        o = mkobj(it, "A", list(A), "double")
        ret = it.call("inverse3x3", [Ptr(o, 0)])
        det = R_(rd(it.lastframe["det"], 0)); out = [R_(x) for x in snapshot(o, 9)]
        goals = [("no-memory-event", z3.BoolVal(not it.events))]
        dspec = zdet(A); adj = zadj(A)
        goals.append(("det=cofactor expansion", det == dspec))
        if ret == 0:
            goals.append(("returns 0 only if det!=0", dspec != 0))
            for k in range(9): goals.append(("out[%d]*det=adj[%d]" % (k, k), out[k] * det == adj[k]))
            for i in range(3):
                for j in range(3):
                    goals.append(("adj.A=det.I[%d%d]" % (i, j), sum(adj[i * 3 + l] * A[l * 3 + j] for l in range(3)) == (dspec if i == j else 0)))
        else:
            goals.append(("returns -1", z3.BoolVal(ret == -1)))
            goals.append(("returns -1 only if det=0", dspec == 0))
            goals.append(("matrix untouched when singular", z3.BoolVal(all(out[k].eq(A[k]) for k in range(9)))))
        return dict(goals=goals, inputs={"a%d" % i: A[i] for i in range(9)})
    def replay_inv(vals, label):
        A = np.array([vals["a%d" % i] for i in range(9)], float).reshape(3, 3)
        L = creplay.lib(); import ctypes as C
        B = A.copy(); L.verif_inverse3x3.restype = C.c_int; r = L.verif_inverse3x3(creplay.dptr(B))
        d = np.linalg.det(A)
        if abs(d) > 1e-9 * np.abs(A).max() ** 3:
            if r != 0 or not np.allclose(B @ A, np.eye(3), atol=1e-6): return True, "inverse3x3(%s) returned %d, out.A=%s" % (A.tolist(), r, (B @ A).tolist())
        return False, "inverse correct at the model point"
    jobs = [("inverse3x3", run_inv, dict(replay=replay_inv, timeout_ms=30000, expect_paths=2))]

    # ---- H2: score == count of the Python reference (calc_drlv2 and strict <)
    def mk_score(n):
        def run():
            symcore.RNE_MODE[0] = "toint"; llsym.MULMODE[0] = "uf"; pysym.MULMODE[0] = "uf"
            try:
                it = Interp(mod)
                U = [z3.Real("u%d" % i) for i in range(9)]; G = [z3.Real("g%d" % i) for i in range(3 * n)]; tol = z3.Real("tol")
                CTX.hyp += [tol > 0, tol <= Fraction(1, 2)]
                uo = mkobj(it, "ubi", list(U), "double", "const"); go = mkobj(it, "gv", list(G), "double", "const")
                ret = it.call("score", [Ptr(uo, 0), Ptr(go, 0), tol, n])
                Us = np.array([Sym(u) for u in U], dtype=object).reshape(3, 3); Gs = np.array([Sym(g) for g in G], dtype=object).reshape(n, 3)
                with symbolize(IDX):
                    drl = IDX.calc_drlv2(Us, Gs)
                tolsq = Sym(tol) * Sym(tol)
                cnt = sum([z3.If((drl[k] < tolsq).t, 1, 0) for k in range(n)]) if n else z3.IntVal(0)
                goals = [("C count = #{k: calc_drlv2[k] < tol^2}", cnt == ret), ("no-memory-event", z3.BoolVal(not it.events))]
                inputs = {"u%d" % i: U[i] for i in range(9)}; inputs.update({"g%d" % i: G[i] for i in range(3 * n)}); inputs["tol"] = tol
                return dict(goals=goals, inputs=inputs, n=n)
            finally:
                llsym.MULMODE[0] = "nra"; pysym.MULMODE[0] = "nra"
        return run
    def replay_score(vals, label):
        n = len([k for k in vals if k.startswith("g")]) // 3
        ubi = [vals["u%d" % i] for i in range(9)]; gv = [vals["g%d" % i] for i in range(3 * n)]
        bad, boundary = compare_real("score", ubi, gv, vals["tol"])
        if bad and not boundary: return True, "%s (ubi=%s gv=%s tol=%r)" % ("; ".join(bad), ubi, gv, vals["tol"])
        # the model lives in the umul abstraction: confirm on the witness family
        for a, g, tol in witness_family(n, common.SEED):
            for t in (tol, 0.5, 0.02):
                b, bd = compare_real("score", a, g, t)
                if b and not bd: return True, "%s (ubi=%s gv=%s tol=%r)" % ("; ".join(b), a.tolist(), g.tolist(), t)
        # exactly representable boundary witnesses (every float operation is exact: identity UBI, dyadic g and tol): error^2 == tol^2
        for t, off in ((0.25, 0.25), (0.5, 0.5), (0.125, -0.125)):
            g = np.array([[k + 1 + off, 0.0, 0.0] for k in range(n)]).reshape(n, 3)
            b, bd = compare_real("score", np.eye(3), g, t, exact=True)
            if b: return True, "%s (ubi=identity gv=%s tol=%r: the error equals the tolerance exactly)" % ("; ".join(b), g.tolist(), t)
        return False, "model did not reproduce (abstract product model) and no witness in the confirmation family"
    for n in range(0, NMAX + 1):
        jobs.append(("score[n=%d]" % n, mk_score(n), dict(replay=replay_score, timeout_ms=30000, expect_paths=2 ** n)))

    # ---- H3/H4: score_and_refine and refine_assigned with cut points at the inverse3x3 calls
    def mk_refine(kind, n):
        def run():
            symcore.RNE_MODE[0] = "fresh"; llsym.MULMODE[0] = "nra"
            try:
                it = Interp(mod); it.cut = {}; it.ncut = 0
                U = [z3.Real("u%d" % i) for i in range(9)]; G = [z3.Real("g%d" % i) for i in range(3 * n)]; tol = z3.Real("tol")
                CTX.hyp += [tol > 0, tol <= Fraction(1, 2)]
                uo = mkobj(it, "ubi", list(U), "double", "inout"); go = mkobj(it, "gv", list(G), "double", "const")
                no = outobj(it, "n", 1, "i32"); so = outobj(it, "sumdrlv2", 1, "double")
                def find_R(it_):
                    """the 3x3 accumulator named R of the innermost frame that has one (directly, or through a pointer parameter of a helper)"""
                    for fr_ in reversed(it_.stack):
                        o = fr_.get("R")
                        if o is None: continue
                        if o.size == 72: return o
                        v = o.mem.get(0)
                        if v and isinstance(v[0], Ptr) and v[0].obj is not None and v[0].off == 0 and v[0].obj.size == 72: return v[0].obj
                    raise symcore.Inconclusive("cut point: no 3x3 accumulator named R is live at the first inverse3x3 call (the kernel was restructured beyond what the staging recognises)")
                def hook(it_, a):
                    mobj = a[0].obj; Robj = find_R(it_) if it_.ncut == 0 else None
                    if any(x is None or x is UNINIT for x in snapshot(mobj, 9) + (snapshot(Robj, 9) if it_.ncut == 0 else [])):
                        it_.events.append(("uninitialised-read", "matrix passed to inverse3x3 (or R) was never written", None)); it_.ncut += 1; return
                    if it_.ncut == 0:
                        it_.cut["R"] = snapshot(Robj, 9); it_.cut["H"] = snapshot(mobj, 9)
                        it_.cut["Rf"] = [z3.Real("Rf%d" % i) for i in range(9)]; it_.cut["Hf"] = [z3.Real("Hf%d" % i) for i in range(9)]
                        for i in range(9): Robj.mem[8 * i] = (it_.cut["Rf"][i], 8); mobj.mem[8 * i] = (it_.cut["Hf"][i], 8)
                    else:
                        it_.cut["UB"] = snapshot(mobj, 9); it_.cut["UBf"] = [z3.Real("UBf%d" % i) for i in range(9)]
                        for i in range(9): mobj.mem[8 * i] = (it_.cut["UBf"][i], 8)
                    it_.ncut += 1
                it.call_hooks["inverse3x3"] = hook
                if kind == "score_and_refine":
                    it.call("score_and_refine", [Ptr(uo, 0), Ptr(go, 0), tol, Ptr(no, 0), Ptr(so, 0), n])
                    LB = None
                else:
                    LB = [z3.Int("lab%d" % k) for k in range(n)]; label = z3.Int("label")
                    lo = mkobj(it, "labels", list(LB), "i32", "const")
                    it.call("refine_assigned", [Ptr(uo, 0), Ptr(go, 0), Ptr(lo, 0), label, Ptr(no, 0), Ptr(so, 0), n])
                out = snapshot(uo, 9); nc = rd(no, 0, 4); sc = rd(so, 0, 8)
                goals = []
                uninit = [e for e in it.events if e[0].startswith("uninitialised")]
                other = [e for e in it.events if not e[0].startswith("uninitialised")]
                goals.append(("no-uninitialised-accumulator", z3.BoolVal(not uninit)))
                goals.append(("no-memory-event", z3.BoolVal(not other)))
                inputs = {"u%d" % i: U[i] for i in range(9)}; inputs.update({"g%d" % i: G[i] for i in range(3 * n)}); inputs["tol"] = tol
                if LB is not None:
                    inputs.update({"lab%d" % k: LB[k] for k in range(n)}); inputs["label"] = label
                res = dict(goals=goals, inputs=inputs, n=n, kind=kind, events=[(e[0], e[2]) for e in it.events][:6])
                if uninit: return res          # garbage in -> nothing more to say on this path
                # ---- specification terms
                h = [[sum(U[3 * j + m] * G[3 * k + m] for m in range(3)) for j in range(3)] for k in range(n)]
                r = [[find_rounded(h[k][j]) for j in range(3)] for k in range(n)]
                sel0 = [None if LB is None else (LB[k] == label) for k in range(n)]
                for k in range(n):
                    for j in range(3):
                        if r[k][j] is None:
                            # refine_assigned only rounds the peaks it uses: an unmatched term must belong to an unselected peak
                            goals.append(("peak %d rounded iff used" % k, z3.Not(sel0[k]) if sel0[k] is not None else z3.BoolVal(False)))
                            r[k][j] = z3.Real("dontcare_%d_%d" % (k, j))
                if len(CTX.rounded) > 3 * n: goals.append(("no extra rounding terms", z3.BoolVal(False)))
                spec = [sum((h[k][j] - r[k][j]) * (h[k][j] - r[k][j]) for j in range(3)) for k in range(n)]
                sel = [(spec[k] < tol * tol) if LB is None else (LB[k] == label) for k in range(n)]
                cnt = sum([z3.If(sel[k], 1, 0) for k in range(n)]) if n else z3.IntVal(0)
                goals.append(("count = #selected", cnt == nc))
                tot = sum([z3.If(sel[k], spec[k], 0) for k in range(n)]) if n else z3.RealVal(0)
                goals.append(("mean squared error", R_(sc) == (tot / nc if nc > 0 else 0)))
                Rdef, Hdef = it.cut["R"], it.cut["H"]
                for i in range(3):
                    for j in range(3):
                        rs = sum([z3.If(sel[k], r[k][j] * G[3 * k + i], 0) for k in range(n)]) if n else z3.RealVal(0)
                        hs = sum([z3.If(sel[k], r[k][j] * r[k][i], 0) for k in range(n)]) if n else z3.RealVal(0)
                        goals.append(("R[%d][%d]=sum g_i h_j" % (i, j), R_(Rdef[3 * i + j]) == rs))
                        goals.append(("H[%d][%d]=sum h_i h_j" % (i, j), R_(Hdef[3 * i + j]) == hs))
                if nc <= 2:
                    goals.append(("fewer than 3 peaks => det H = 0", zdet([R_(x) for x in Hdef]) == 0))
                Rf, Hf = it.cut["Rf"], it.cut["Hf"]; dH = zdet(Hf); aH = zadj(Hf)
                unchanged = all(isinstance(out[k], z3.ExprRef) and out[k].eq(U[k]) for k in range(9))
                if it.ncut == 2:
                    UBdef, UBf = it.cut["UB"], it.cut["UBf"]; dU = zdet(UBf); aU = zadj(UBf)
                    goals.append(("second inverse only if det H != 0", dH != 0))
                    for i in range(3):
                        for j in range(3):
                            goals.append(("UB.H=R [%d%d]" % (i, j), R_(UBdef[3 * i + j]) * dH == sum(Rf[3 * i + l] * aH[3 * l + j] for l in range(3))))
                    if unchanged: goals.append(("unchanged only if singular", dU == 0))
                    else:
                        goals.append(("changed only if det UB != 0", dU != 0))
                        for k in range(9): goals.append(("ubi_out=inverse(UB)[%d]" % k, R_(out[k]) * dU == aU[k]))
                else:
                    goals.append(("no refinement only if det H = 0", dH == 0))
                    goals.append(("matrix unchanged when the normal equations are singular", z3.BoolVal(unchanged)))
                return res
            finally:
                symcore.RNE_MODE[0] = "toint"
        return run
    def replay_refine(vals, label):
        n = len([k for k in vals if k.startswith("g")]) // 3
        kind = "refine_assigned" if "label" in vals else "score_and_refine"
        ubi = [vals["u%d" % i] for i in range(9)]; gv = [vals["g%d" % i] for i in range(3 * n)]
        labels = [int(round(vals["lab%d" % k])) for k in range(n)] if kind == "refine_assigned" else None
        lab = int(round(vals["label"])) if kind == "refine_assigned" else None
        if label == "no-uninitialised-accumulator":
            # dependence on uninitialised stack memory: two builds that differ ONLY in the fill pattern of automatic variables
            La = common.build_so(extra=("-ftrivial-auto-var-init=zero",), key="autozero"); Lb = common.build_so(extra=("-ftrivial-auto-var-init=pattern",), key="autopattern")
            rng = np.random.RandomState(3); a = np.eye(3) * 4.0; g = (np.linalg.inv(a) @ np.array([[1, 0, 0], [0, 1, 0], [0, 0, 1], [1, 1, 1]], float).T).T
            lbl = np.zeros(4, np.int32)
            oa = creplay.refine_assigned(a, g, lbl, 0, La) if kind == "refine_assigned" else creplay.score_and_refine(a, g, 0.1, La)
            ob = creplay.refine_assigned(a, g, lbl, 0, Lb) if kind == "refine_assigned" else creplay.score_and_refine(a, g, 0.1, Lb)
            n_, mean_, want, why = reference(a, g, 0.1, lbl if kind == "refine_assigned" else None, 0)
            if not np.array_equal(oa[0], ob[0]) or (want is not None and not np.allclose(ob[0], want, rtol=1e-6)):
                return True, "%s reads its accumulators R/H/UB uninitialised: zero-filled stack gives %s, pattern-filled stack gives %s, definition %s" % (
                    kind, oa[0].ravel().tolist(), ob[0].ravel().tolist(), None if want is None else want.ravel().tolist())
            return False, "uninitialised read flagged by the model but both stack fill patterns give the LSQ answer"
        bad, boundary = compare_real(kind, ubi, gv, vals["tol"], labels, lab)
        if bad and not boundary: return True, "%s (ubi=%s gv=%s tol=%r labels=%s)" % ("; ".join(bad), ubi, gv, vals["tol"], labels)
        for a, g, tol in witness_family(n, common.SEED):
            for m in sorted(set([len(g), n])):
                gg = g[:m]
                lbl = (np.arange(len(gg)) % 2).astype(np.int32) if kind == "refine_assigned" else None
                for lab_ in ((0, 1) if kind == "refine_assigned" else (None,)):
                    b, bd = compare_real(kind, a, gg, tol, lbl, lab_)
                    if b and not bd: return True, "%s (ubi=%s gv=%s tol=%r labels=%s label=%s)" % ("; ".join(b), a.tolist(), gg.tolist(), tol, None if lbl is None else lbl.tolist(), lab_)
        return False, "abstract counterexample (cut-point / rounding abstraction) could not be confirmed on the real build"
    for kind in ("score_and_refine", "refine_assigned"):
        for n in range(0, 4):
            if n == 3 and not thorough and kind == "refine_assigned": continue
            jobs.append(("%s[n=%d]" % (kind, n), mk_refine(kind, n), dict(replay=replay_refine, timeout_ms=30000, keyfn=keyfn, budget_s=(900 if thorough else 300))))   # budget: a changed tree with more forks per peak ends as inconclusive / violation instead of running on
    harness.run_parallel(ck, jobs)

    ck.finish("The C kernels are executed from clang's IR of the current src/closest.c on symbolic UBI, g-vectors and tolerance; every "
              "path (one per selection pattern x singular/non-singular branch) is checked against the mathematical definition: count = "
              "#{k: |UBI.g-round(UBI.g)|^2 < tol^2} and equal to the Python reference calc_drlv2 (executed symbolically too), mean squared "
              "error, R = sum g h^T, H = sum h h^T over exactly the selected (or labelled) peaks, UB.H = R, returned matrix = UB^-1, "
              "unchanged matrix iff a determinant is zero, fewer than 3 peaks always singular; inverse3x3 as a unit (adjugate/determinant). "
              "Bounded to <=3 peaks per query.")

def find_rounded(h):
    """the abstract rounding variable the C code attached to (a term equal to) h"""
    for r, x in CTX.rounded:
        d = z3.simplify(x - h, som=True)
        if z3.is_rational_value(d) and d.numerator_as_long() == 0: return r
    for r, x in CTX.rounded:
        if common.solve([x != h], 5000)[0] == "unsat": return r
    return None

def keyfn(name, label):
    if label == "no-uninitialised-accumulator" and name.startswith("refine_assigned"): return "closest.c:refine_assigned:uninitialised-accumulators"
    return "%s/%s" % (name.split("[")[0], label)

def lemma_magic(ck, irpath):
    """(x+MAGIC)-MAGIC == roundToIntegral(RNE,x) for |x|<=2^51, with MAGIC read from the IR"""
    import re, struct
    txt = open(irpath).read()
    consts = set(re.findall(r"fadd double %[\w.]+, (0x[0-9A-Fa-f]+|[-0-9.e+]+)", txt)) & set(re.findall(r"fsub double %[\w.]+, (0x[0-9A-Fa-f]+|[-0-9.e+]+)", txt))
    vals = set()
    for c in consts:
        v = struct.unpack(">d", bytes.fromhex(c[2:].rjust(16, "0")))[0] if c.startswith("0x") else float(c)
        if v > 2 ** 50: vals.add(v)
    if vals != {6755399441055744.0}:
        ck.undecided("L-MAGIC", "rounding constant(s) in the IR are %s, the model of conv_double_to_int_fast assumes 6755399441055744.0" % sorted(vals)); return
    x = z3.FP("x", z3.Float64()); M = z3.FPVal(6755399441055744.0, z3.Float64()); rm = z3.RNE()
    lim = z3.FPVal(2.0 ** 51, z3.Float64())
    goal = z3.fpEQ(z3.fpSub(rm, z3.fpAdd(rm, x, M), M), z3.fpRoundToIntegral(rm, x))
    r, m = ck.prove("L-MAGIC (QF_FP)", [z3.fpLEQ(z3.fpAbs(x), lim)], goal, 120000)
    ck.path("L-MAGIC")
    if r == "sat": ck.inconclusive.append("L-MAGIC lemma has a counterexample: %s" % m)
    # L-ROUND: the C rounding (half-even) and the Python floor(h+0.5) give the same squared residual
    y = z3.Real("y"); a = y - symcore.rne(y); b = y - z3.ToReal(z3.ToInt(y + Fraction(1, 2)))
    ck.prove("L-ROUND (x-rne x)^2=(x-floor(x+1/2))^2", [], z3.Or(a == b, a == -b), 30000); ck.path("L-ROUND")

if __name__ == "__main__":
    common.run_main(main)
