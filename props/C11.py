"""
C11 - threshold labelling yields exactly the connected components (dense, sparse, splat; 8- and 4-connectivity).
Decided by: llsym execution of connectedpixels / sparse_connectedpixels / sparse_connectedpixels_splat (+ blobs.c disjoint
set) from clang IR with symbolic pixel values and threshold: one path per threshold pattern, all patterns of every shape
in the bound; sparse kernels additionally with *symbolic sorted coordinates* and a solver-quantified reachability oracle;
the disjoint-set growth path (realloc) as a unit with small capacities.
"""
import sys, os, itertools
sys.path.insert(0, os.path.join(os.path.dirname(os.path.abspath(__file__)), "..", "lib"))
import z3, numpy as np
from fractions import Fraction
import common, symcore, harness, llsym, creplay
from common import Check, parse_args
from llsym import Module, Interp, Ptr, mkobj, outobj, symobj, rd, snapshot
from symcore import CTX, EX

def components(mask, ns, nf, con8):
    """oracle: partition of the True pixels (list of frozensets of flat indices)"""
    seen = {}; comps = []
    for s in range(ns * nf):
        if not mask[s] or s in seen: continue
        st = [s]; seen[s] = len(comps); cur = [s]
        while st:
            p = st.pop(); i, j = divmod(p, nf)
            for di in (-1, 0, 1):
                for dj in (-1, 0, 1):
                    if (di, dj) == (0, 0) or (not con8 and di != 0 and dj != 0): continue
                    a, b = i + di, j + dj
                    if 0 <= a < ns and 0 <= b < nf:
                        q = a * nf + b
                        if mask[q] and q not in seen: seen[q] = len(comps); st.append(q); cur.append(q)
        comps.append(frozenset(cur))
    return comps

def partition_of(labels, idx):
    d = {}
    for p, l in zip(idx, labels):
        if l != 0: d.setdefault(l, set()).add(p)
    return d

def judge(labels, ret, mask, ns, nf, con8, what):
    """compare a concrete label list with the oracle; returns list of problems"""
    bad = []
    comps = components(mask, ns, nf, con8)
    for p in range(ns * nf):
        if not mask[p] and labels[p] != 0: bad.append("%s: background pixel %d has label %r" % (what, p, labels[p]))
        if mask[p] and not (isinstance(labels[p], int) and labels[p] >= 1): bad.append("%s: foreground pixel %d has label %r" % (what, p, labels[p]))
    if bad: return bad
    part = partition_of(labels, range(ns * nf))
    if set(map(frozenset, part.values())) != set(comps): bad.append("%s: partition %s != components %s" % (what, sorted(map(sorted, part.values())), sorted(map(sorted, comps))))
    if ret != len(comps): bad.append("%s: returned %r, components %d" % (what, ret, len(comps)))
    if sorted(part.keys()) != list(range(1, len(comps) + 1)): bad.append("%s: labels used %s, expected 1..%d" % (what, sorted(part.keys()), len(comps)))
    return bad

# ------------------------------------------------------------------------------------------------ path workers
def make_dense_run(mods, ns, nf, con8, with_sparse):
    mod = mods
    def run():
        it = Interp(mod); thr = z3.Real("thr")
        data = symobj(it, "d", ns * nf, "float", "const"); lab = outobj(it, "labels", ns * nf, "i32", "inout")
        ret = it.call("connectedpixels", [Ptr(data, 0), Ptr(lab, 0), thr, 0, con8, ns, nf])
        out = dict(dense=(snapshot(lab, ns * nf, 4), ret), events=list(it.events), data=[data.get(k) for k in range(ns * nf)], thr=thr)
        if with_sparse and con8:
            I = [p // nf for p in range(ns * nf)]; J = [p % nf for p in range(ns * nf)]
            io = mkobj(it, "i", I, "i16", "const"); jo = mkobj(it, "j", J, "i16", "const")
            sl = outobj(it, "slabels", ns * nf, "i32", "inout")
            r2 = it.call("sparse_connectedpixels", [Ptr(data, 0), Ptr(io, 0), Ptr(jo, 0), ns * nf, thr, Ptr(sl, 0)])
            out["sparse"] = (snapshot(sl, ns * nf, 4), r2)
            zl = mkobj(it, "zlabels", [0] * (ns * nf), "i32", "inout")
            Z = outobj(it, "Z", (ns + 2) * (nf + 2), "i32", "inout")      # documented workspace ni*nj+2*ni+2*nj+4, NOT zeroed by the caller
            r3 = it.call("sparse_connectedpixels_splat", [Ptr(data, 0), Ptr(io, 0), Ptr(jo, 0), ns * nf, thr, Ptr(zl, 0), Ptr(Z, 0), ns, nf])
            out["splat"] = (snapshot(zl, ns * nf, 4), r3)
            out["events"] = list(it.events)
        return out
    return run

def on_dense_path(ns, nf, con8):
    def f(res, pc, hyp, taken, status):
        if res is None: return dict(status=status, taken=str(taken), bad=["path ended: " + status], mask=None)
        m = EX.model([])
        mask = [bool(z3.is_true(m.eval(res["data"][k] > res["thr"], model_completion=True))) for k in range(ns * nf)]
        bad = []
        for k in ("dense", "sparse", "splat"):
            if k in res:
                labels, ret = res[k]
                bad += judge(labels, ret, mask, ns, nf, con8, k)
        if res["events"]: bad.append("memory events: %s" % res["events"][:3])
        vals = [float(m.eval(res["data"][k], model_completion=True).as_fraction()) for k in range(ns * nf)]
        thr = float(m.eval(res["thr"], model_completion=True).as_fraction())
        return dict(status=status, mask="".join("1" if b else "0" for b in mask), bad=bad, vals=vals, thr=thr, npc=len(pc))
    return f

def replay_dense(vals, thr, ns, nf, con8):
    """run the real compiled kernels on the model's image"""
    import ctypes as C
    L = creplay.lib(); data = np.array(vals, np.float32).reshape(ns, nf); mask = (data > np.float32(thr)).ravel().tolist()
    bad = []
    lab = np.full((ns, nf), 7, np.int32); L.verif_connectedpixels.restype = C.c_int
    r = L.verif_connectedpixels(creplay.fptr(data), creplay.iptr(lab), C.c_float(thr), 0, con8, ns, nf)
    bad += judge(lab.ravel().tolist(), r, mask, ns, nf, con8, "dense(real)")
    if con8:
        i = np.repeat(np.arange(ns), nf).astype(np.uint16); j = np.tile(np.arange(nf), ns).astype(np.uint16)
        sl = np.full(ns * nf, 7, np.int32); L.sparse_connectedpixels.restype = C.c_int
        r = L.sparse_connectedpixels(creplay.fptr(data), i.ctypes.data_as(C.POINTER(C.c_uint16)), j.ctypes.data_as(C.POINTER(C.c_uint16)), ns * nf, C.c_float(thr), creplay.iptr(sl))
        bad += judge(sl.tolist(), r, mask, ns, nf, con8, "sparse(real)")
        zl = np.zeros(ns * nf, np.int32); Z = np.full((ns + 2) * (nf + 2), 12345, np.int32); L.sparse_connectedpixels_splat.restype = C.c_int
        r = L.sparse_connectedpixels_splat(creplay.fptr(data), i.ctypes.data_as(C.POINTER(C.c_uint16)), j.ctypes.data_as(C.POINTER(C.c_uint16)), ns * nf, C.c_float(thr), creplay.iptr(zl), creplay.iptr(Z), ns, nf)
        bad += judge(zl.tolist(), r, mask, ns, nf, con8, "splat(real)")
    return bad

# ------------------------------------------------------------------------------------------------ sparse with symbolic coordinates
def make_sparse_run(mod, nnz, W, kernel):
    def run():
        it = Interp(mod); thr = z3.Real("thr")
        v = symobj(it, "v", nnz, "float", "const"); io = symobj(it, "i", nnz, "i16", "const", lo=0, hi=W - 1); jo = symobj(it, "j", nnz, "i16", "const", lo=0, hi=W - 1)
        I = [io.get(k) for k in range(nnz)]; J = [jo.get(k) for k in range(nnz)]
        for k in range(1, nnz): CTX.hyp.append(z3.Or(I[k] > I[k - 1], z3.And(I[k] == I[k - 1], J[k] > J[k - 1])))   # documented precondition: sorted, no duplicates
        if kernel == "sparse":
            lab = outobj(it, "labels", nnz, "i32", "inout")
            ret = it.call("sparse_connectedpixels", [Ptr(v, 0), Ptr(io, 0), Ptr(jo, 0), nnz, thr, Ptr(lab, 0)])
        else:
            lab = mkobj(it, "labels", [0] * nnz, "i32", "inout"); Z = outobj(it, "Z", (W + 2) * (W + 2), "i32", "inout")
            ret = it.call("sparse_connectedpixels_splat", [Ptr(v, 0), Ptr(io, 0), Ptr(jo, 0), nnz, thr, Ptr(lab, 0), Ptr(Z, 0), W, W])
        return dict(labels=snapshot(lab, nnz, 4), ret=ret, I=I, J=J, V=[v.get(k) for k in range(nnz)], thr=thr, events=list(it.events))
    return run

def on_sparse_path(nnz, W, kernel):
    def f(res, pc, hyp, taken, status):
        if res is None: return dict(status=status, bad=["path ended: " + status], nq=0)
        I, J, V, thr = res["I"], res["J"], res["V"], res["thr"]; labels = res["labels"]; bad = []
        base = list(hyp) + list(pc)
        fg = [V[k] > thr for k in range(nnz)]
        def zabs(x): return z3.If(x >= 0, x, -x)
        adj = [[z3.And(fg[p], fg[q], zabs(I[p] - I[q]) <= 1, zabs(J[p] - J[q]) <= 1) if p != q else fg[p] for q in range(nnz)] for p in range(nnz)]
        conn = [[adj[p][q] for q in range(nnz)] for p in range(nnz)]
        for _ in range(max(0, nnz - 2)):      # paths of length <= nnz-1 (boolean matrix closure)
            conn = [[z3.Or(conn[p][q], *[z3.And(conn[p][r], adj[r][q]) for r in range(nnz)]) for q in range(nnz)] for p in range(nnz)]
        goals = []
        for p in range(nnz):
            lp = labels[p]
            if not isinstance(lp, int): bad.append("label %d is %r" % (p, lp)); continue
            goals.append(("bg%d" % p, fg[p] == z3.BoolVal(lp > 0)))
            for q in range(p + 1, nnz):
                lq = labels[q]
                if isinstance(lq, int) and lp > 0 and lq > 0: goals.append(("same%d_%d" % (p, q), conn[p][q] == z3.BoolVal(lp == lq)))
        used = sorted(set(l for l in labels if isinstance(l, int) and l > 0))
        if used != list(range(1, len(used) + 1)) or res["ret"] != len(used): bad.append("labels used %s, returned %r" % (used, res["ret"]))
        nq = 0; model = None
        for nm, g in goals:
            r, m = common.solve(base + [z3.Not(g)], 20000, want_model=True); nq += 1
            if r == "sat":
                bad.append("oracle mismatch %s" % nm); model = m; break
            if r == "unknown": bad.append("undecided %s" % nm)
        if res["events"]: bad.append("memory events: %s" % res["events"][:3])
        out = dict(status=status, bad=bad, nq=nq, labels=[l if isinstance(l, int) else str(l) for l in labels])
        m = model or EX.model([])
        if m is not None:
            out["i"] = [m.eval(x, model_completion=True).as_long() for x in I]; out["j"] = [m.eval(x, model_completion=True).as_long() for x in J]
            out["v"] = [float(m.eval(x, model_completion=True).as_fraction()) for x in V]; out["thr"] = float(m.eval(thr, model_completion=True).as_fraction())
        return out
    return f

def replay_sparse(i, j, v, thr, W, kernel):
    import ctypes as C
    L = creplay.lib(); nnz = len(i)
    ii = np.array(i, np.uint16); jj = np.array(j, np.uint16); vv = np.array(v, np.float32)
    p16 = lambda a: a.ctypes.data_as(C.POINTER(C.c_uint16))
    if kernel == "sparse":
        lab = np.full(nnz, 9, np.int32); L.sparse_connectedpixels.restype = C.c_int
        r = L.sparse_connectedpixels(creplay.fptr(vv), p16(ii), p16(jj), nnz, C.c_float(thr), creplay.iptr(lab))
    else:
        lab = np.zeros(nnz, np.int32); Z = np.full((W + 2) * (W + 2), 4321, np.int32); L.sparse_connectedpixels_splat.restype = C.c_int
        r = L.sparse_connectedpixels_splat(creplay.fptr(vv), p16(ii), p16(jj), nnz, C.c_float(thr), creplay.iptr(lab), creplay.iptr(Z), W, W)
    dense = [False] * (W * W); pos = {}
    for k in range(nnz):
        dense[int(ii[k]) * W + int(jj[k])] = bool(vv[k] > np.float32(thr)); pos[int(ii[k]) * W + int(jj[k])] = k
    full = [0] * (W * W)
    for p, k in pos.items(): full[p] = int(lab[k])
    return judge(full, r, dense, W, W, 1, kernel + "(real)")

# ------------------------------------------------------------------------------------------------ disjoint set unit (growth path)
def make_dset_run(mod, cap, nnew):
    def run():
        it = Interp(mod)
        S = it.call("dset_initialise", [cap])
        cell = it.newobj("pS", 8, None, "stack"); vcell = it.newobj("v", 4, None, "stack")
        got = []
        for n in range(1, nnew + 1):
            cell.mem[0] = (S, 8)
            S = it.call("dset_new", [Ptr(cell, 0), Ptr(vcell, 0)])
            got.append(rd(vcell, 0, 4))
            # representation invariant after every insertion
            o = S.obj; capn = o.size // 4
            s0 = it.load(Ptr(o, 0), "i32", None); cnt = it.load(Ptr(o, 4 * (capn - 1)), "i32", None)
            if s0 != capn or cnt != n: it.events.append(("dset-invariant", "after %d inserts: S[0]=%r capacity=%d count cell=%r" % (n, s0, capn, cnt), None))
            for i in range(1, n + 1):
                si = it.load(Ptr(o, 4 * i), "i32", None)
                if si != i: it.events.append(("dset-invariant", "after %d inserts: S[%d]=%r (a fresh set must be its own root)" % (n, i, si), None))
        # unions chosen by symbolic bits, then compress
        bits = [z3.Bool("b%d" % i) for i in range(2 * nnew)]
        edges = []
        nu = min(nnew, 6)                       # union patterns among the first labels and across the reallocation boundary
        for i in list(range(1, nu)) + [nnew - 1]:
            if EX.branch(bits[i]): it.call("dset_makeunion", [S, i, i + 1]); edges.append((i, i + 1))
        for i in (1, 3, nnew - 2):
            if EX.branch(bits[nnew + i]): it.call("dset_makeunion", [S, i + 2, i]); edges.append((i, i + 2))
        cell.mem[0] = (S, 8); npo = it.newobj("np", 4, None, "stack")
        Tp = it.call("dset_compress", [Ptr(cell, 0), Ptr(npo, 0)])
        T = [it.load(Ptr(Tp.obj, 4 * i), "i32", None) for i in range(1, nnew + 1)]
        return dict(got=got, T=T, np=rd(npo, 0, 4), edges=edges, events=list(it.events))
    return run

def on_dset_path(nnew):
    def f(res, pc, hyp, taken, status):
        if res is None: return dict(status=status, bad=["path ended: " + status])
        bad = []
        res["edges"] = [e for e in res["edges"]]
        if res["got"] != list(range(1, nnew + 1)): bad.append("dset_new returned %s" % res["got"])
        par = list(range(nnew + 1))
        def find(x):
            while par[x] != x: x = par[x]
            return x
        for a, b in res["edges"]: par[max(find(a), find(b))] = min(find(a), find(b))
        roots = sorted(set(find(i) for i in range(1, nnew + 1)))
        want = [roots.index(find(i)) + 1 for i in range(1, nnew + 1)]
        if res["T"] != want or res["np"] != len(roots): bad.append("dset_compress T=%s np=%r, expected %s np=%d (edges %s)" % (res["T"], res["np"], want, len(roots), res["edges"]))
        if res["events"]: bad.append("events: %s" % res["events"][:3])
        return dict(status=status, bad=bad, edges=str(res["edges"]))
    return f

def replay_dset(cap, nnew):
    """the same unit sequence on the real blobs.c build"""
    import ctypes as C
    L = creplay.lib()
    L.verif_dset_initialise.restype = C.POINTER(C.c_int32); L.verif_dset_new.restype = C.POINTER(C.c_int32); L.verif_dset_compress.restype = C.POINTER(C.c_int32)
    S = L.verif_dset_initialise(cap); v = C.c_int32(0); bad = []
    for n in range(1, nnew + 1):
        pS = C.pointer(S); S = L.verif_dset_new(C.byref(S), C.byref(v))
        capn = S[0]
        if v.value != n or S[capn - 1] != n or any(S[i] != i for i in range(1, n + 1)):
            bad.append("after %d inserts (initial capacity %d): v=%d count=%d S[1..n]=%s" % (n, cap, v.value, S[capn - 1], [S[i] for i in range(1, n + 1)])); break
    return bad

# ------------------------------------------------------------------------------------------------ main
def main():
    args = parse_args("C11"); ck = Check("C11", args.tier); thorough = args.tier == "thorough"
    symcore.Explorer.incremental = True        # comparisons of pixel values / small integers only: linear arithmetic
    ir = common.build_ir(["connectedpixels", "blobs", "sparse_image"]); mod = Module()
    for k in ("connectedpixels", "blobs", "sparse_image"): mod.load(ir[k])
    ck.encoded("src/connectedpixels.c:connectedpixels", "src/sparse_image.c:sparse_connectedpixels", "src/sparse_image.c:sparse_connectedpixels_splat",
               "src/blobs.c:dset_initialise/dset_new/dset_find/dset_makeunion/dset_link/dset_compress", "src/blobs.h:match")
    shapes = [(2, 2), (2, 3), (3, 2)] + ([(3, 3), (2, 4), (4, 2), (3, 4)] if thorough else [(3, 3)])
    ck.bound("dense: every threshold pattern of the shapes %s for connectivity 8 and 4 (symbolic pixel values and threshold; 2^(ns*nf) path sets per shape)" % shapes,
             "sparse/splat on the same image (all pixels listed row-major) compared with dense on every such pattern (8-connectivity)",
             "sparse/splat with SYMBOLIC sorted coordinates in a %dx%d grid, nnz <= %d, symbolic values: reachability oracle quantified by the solver" % ((4, 4, 4) if thorough else (3, 3, 3)),
             "disjoint-set growth (realloc branch of dset_new, unreachable at these image sizes) as a unit from capacities 4..8 with up to 2*cap+3 insertions and symbolic union patterns",
             "larger images and the 16384-label table of the real entry points are outside the bound; allocation never fails")
    ck.assume("float pixel values as reals (only compared with the threshold)", "labels buffer content on entry is arbitrary for dense/sparse (uninitialised object); splat gets zeroed labels as its Python caller provides",
              "sequential semantics of the relabel loop (its schedule independence is a footprint obligation below)")
    viol = []
    # ---- dense (+ sparse/splat on the full image)
    for (ns, nf) in shapes:
        for con8 in (1, 0):
            name = "dense[%dx%d,con%d]" % (ns, nf, 8 if con8 else 4)
            outs = harness.par_paths(ck, make_dense_run(mod, ns, nf, con8, True), on_dense_path(ns, nf, con8), depth=6)
            masks = set(o["mask"] for o in outs if o.get("mask"))
            ck.path(None, n=len(outs))
            for o in outs: ck.path("%s:%s" % (name, o.get("mask")), n=0)
            if len(masks) != 2 ** (ns * nf) or len(outs) != 2 ** (ns * nf):
                ck.inconclusive.append("%s: %d paths / %d distinct masks, expected %d" % (name, len(outs), len(masks), 2 ** (ns * nf)))
            badp = [o for o in outs if o["bad"]]
            if not badp: ck.ok("%s: labels = connected components on all %d threshold patterns (dense%s)" % (name, len(outs), ", sparse, splat" if con8 else ""))
            for o in badp[:3]:
                if o.get("vals") is None: ck.inconclusive.append("%s: %s" % (name, o["bad"])); continue
                rb = replay_dense(o["vals"], o["thr"], ns, nf, con8)
                if rb: ck.violation("%s mask %s: %s" % (name, o["mask"], "; ".join(rb[:2])), "connectedpixels:%s" % rb[0].split(":")[0], dict(vals=o["vals"], thr=o["thr"], ns=ns, nf=nf, con8=con8))
                else: ck.not_reproduced("%s mask %s: model says %s" % (name, o["mask"], o["bad"][:2]))
            ck.sample(dict(harness=name, paths=len(outs), example_mask=outs[0].get("mask") if outs else None))
    # ---- sparse with symbolic coordinates
    W, NN = (4, 4) if thorough else (3, 3)
    for kernel in ("sparse", "splat"):
        for nnz in range(0, NN + 1):
            name = "%s-symbolic-coords[nnz=%d,grid %dx%d]" % (kernel, nnz, W, W)
            outs = harness.par_paths(ck, make_sparse_run(mod, nnz, W, kernel), on_sparse_path(nnz, W, kernel), depth=5)
            ck.path(None, n=len(outs)); common.STATS.queries += sum(o.get("nq", 0) for o in outs)
            for n_, o in enumerate(outs): ck.path("%s:%d" % (name, n_), n=0)
            badp = [o for o in outs if o["bad"]]
            if not badp: ck.ok("%s: same label <=> 8-connected through above-threshold pixels on all %d paths" % (name, len(outs)))
            for o in badp[:3]:
                if "i" not in o: ck.inconclusive.append("%s: %s" % (name, o["bad"])); continue
                rb = replay_sparse(o["i"], o["j"], o["v"], o["thr"], W, kernel)
                if rb: ck.violation("%s i=%s j=%s v=%s thr=%r: %s" % (name, o["i"], o["j"], o["v"], o["thr"], "; ".join(rb[:2])), "%s_connectedpixels:%s" % (kernel, rb[0].split(":")[0]), o)
                else: ck.not_reproduced("%s: model says %s (i=%s j=%s)" % (name, o["bad"][:2], o.get("i"), o.get("j")))
            ck.sample(dict(harness=name, paths=len(outs)))
    # ---- disjoint set growth
    for cap in ((4, 5, 6, 8) if thorough else (4, 6)):
        nnew = 2 * cap + 3 if cap <= 5 or thorough else cap + 3
        nnew = min(nnew, 13)
        name = "dset-unit[capacity %d, %d inserts]" % (cap, nnew)
        outs = harness.par_paths(ck, make_dset_run(mod, cap, nnew), on_dset_path(nnew), depth=5)
        ck.path(None, n=len(outs))
        for n_, o in enumerate(outs): ck.path("%s:%d" % (name, n_), n=0)
        badp = [o for o in outs if o["bad"]]
        if not badp: ck.ok("%s: invariant after every insert incl. reallocation; compress = components on all %d union patterns" % (name, len(outs)))
        else:
            rb = replay_dset(cap, nnew)
            if rb: ck.violation("%s: %s" % (name, rb[0]), "blobs.c:dset_new:growth", dict(cap=cap, nnew=nnew))
            else: ck.not_reproduced("%s: model says %s" % (name, badp[0]["bad"][:2]))
    # ---- relabel loop: schedule independence (footprint on the OpenMP IR)
    iro = common.build_ir(["connectedpixels", "blobs"], openmp=True); modo = Module()
    for k in ("connectedpixels", "blobs"): modo.load(iro[k])
    footprint_relabel(ck, modo)
    ck.finish("Every threshold pattern of every shape in the bound is a path set of the symbolic execution of the real kernels; on each the "
              "labels are compared with a graph oracle (background, partition = connected components, labels 1..n all used, n returned), for "
              "dense 8/4-connectivity and for sparse and splat on the same pixels; sparse kernels with symbolic sorted coordinates are checked "
              "against a solver-quantified reachability relation; the union-find growth path is driven as a unit.")

def footprint_relabel(ck, modo):
    """the `#pragma omp parallel for` relabelling loop of connectedpixels: iterations i1 != i2 touch disjoint label cells.
    The loop is reached through the real function on a 2x2 image; T and labels are then concrete objects, rows are symbolic."""
    def setup(it):
        kA, kB = z3.Int("kA"), z3.Int("kB"); it.omp_iters = (kA, kB)
        ns, nf = 3, 2
        CTX.hyp += [kA >= 0, kB >= 0, kA < ns, kB < ns]
        data = mkobj(it, "d", [Fraction(1), Fraction(0), Fraction(1), Fraction(1), Fraction(0), Fraction(1)], "float", "const"); lab = outobj(it, "labels", ns * nf, "i32", "inout")
        return [Ptr(data, 0), Ptr(lab, 0), Fraction(1, 2), 0, 1, ns, nf]
    npaths, nq, conflicts, shared = llsym.footprint(modo, "connectedpixels", setup)
    ck.path("footprint-relabel", n=npaths)
    ck.extra["footprint_relabel"] = dict(path_pairs=npaths, alias_queries=nq, conflicts=len(conflicts))
    if npaths == 0: ck.vacuity_fail("footprint: relabel loop not reached"); return
    ck.vacuity_ok("footprint-relabel: %d path pairs" % npaths)
    if not conflicts: ck.ok("relabel loop: rows i1 != i2 touch disjoint cells of labels (schedule independent)", "%d alias queries" % nq)
    else: ck.undecided("relabel loop footprint", "conflicts %s" % conflicts[:3])

if __name__ == "__main__":
    common.run_main(main)
