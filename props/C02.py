"""
C02 - g-vectors obey the Bragg / Ewald laws and the diffraction geometry is invertible.
Decided by: pysym execution of the real transform.compute_k_vectors / compute_g_from_k / compute_g_vectors / uncompute_g_vectors,
gv_general.g_to_k / k_to_g / rotation_axis.rotate_vectors / wedgechi / chiwedge and transform.compute_xyz_from_tth_eta /
compute_tth_eta_from_xyz on symbolic reals (angles as unit (cos, sin) pairs with the angle algebra of symcore.trig), and llsym execution
of compute_gv from the clang IR of src/cdiffraction.c.  The laws are reference-free polynomial identities:
  L1  |g|^2 lambda^2 = 4 sin^2(theta) on every path (wedge / chi on or off), for every omega (hence for either omega sign)
  L2  g(omega + delta) = Rz(-delta) g(omega)
  L3  inverse: on every path of the real uncompute_g_vectors that flags the vector valid, both (omega, k) solutions lie on the Ewald
      sphere (S1), the returned tth / eta are the documented functions of |g| and k (W), compute_k_vectors(tth, eta) = k for every k on
      the sphere (L3b), compute_g_from_k(k_to_g(g, omega), omega) = g (L3c).  The round trip follows by congruence; the monolithic
      round trip is a stretch obligation.
  L4  on every path that flags the vector invalid no rotation about the axis puts it on the sphere, and every angle is masked to 0;
      arcsin never receives an argument outside [-1, 1] (domain obligation instead of a hypothesis).
  L5  detector: compute_tth_eta_from_xyz(compute_xyz_from_tth_eta(tth, eta, omega, t)) has the same direction cosines.
"""
import sys, os
sys.path.insert(0, os.path.join(os.path.dirname(os.path.abspath(__file__)), "..", "lib"))
import z3, numpy as np, math
from fractions import Fraction
import common, symcore, pysym, harness, llsym
from common import Check, parse_args
from llsym import Module, Interp, Ptr, mkobj, outobj
from pysym import Sym, T, var, symbolize, patched, NP
from symcore import CTX, to_real, PI, ATAN2, ASIN

def col(*names): return np.array([[var(n)] for n in names], dtype=object)
def arr1(x): return np.array([x], dtype=object)
def n2(v): return sum(x * x for x in v)

class RecNP(pysym.NPProxy):
    """NPProxy that records the arguments of arctan2 (g_to_k: phi = arctan2(rbda2, rbda1))"""
    def __init__(s): s.atan2_args = []
    def arctan2(s, a, b):
        s.atan2_args.append((a, b)); return pysym.NPProxy.arctan2(s, a, b)

def ctx(TR, GG, extra=()):
    return patched(*([(TR, "np", NP), (GG, "np", NP), (GG, "math", pysym.MATH), (GG, "inv", NP.linalg.inv)] + list(extra)))

# ------------------------------------------------------------------------------------------------ forward laws
def mk_forward(TR, GG):
    def run():
        tth, eta, om, lam, wedge, chi, dl = [var(n) for n in ("tth", "eta", "omega", "lam", "wedge", "chi", "delta")]
        CTX.hyp.append(lam.t > 0)
        with ctx(TR, GG):
            g = TR.compute_g_vectors(arr1(tth), arr1(eta), arr1(om), lam, wedge, chi)
            s = NP.sin(NP.radians(arr1(tth)) / 2)[0]
            K = col("K0", "K1", "K2")
            ga = TR.compute_g_from_k(K, arr1(om), wedge, chi); gb = TR.compute_g_from_k(K, arr1(om + dl), wedge, chi)
            cd, sd = NP.cos(NP.radians(arr1(dl)))[0], NP.sin(NP.radians(arr1(dl)))[0]
        gz = [T(g[i, 0]) for i in range(3)]; A = [T(ga[i, 0]) for i in range(3)]; B = [T(gb[i, 0]) for i in range(3)]; cd, sd = T(cd), T(sd)
        goals = [("L1 |g|^2.lambda^2 = 4 sin^2(theta), no dependence on omega / wedge / chi", n2(gz) * lam.t * lam.t == 4 * T(s) * T(s)),
                 ("L1 |g(k)|^2 = |k|^2 for every k, omega, wedge, chi", n2(A) == n2([T(K[i, 0]) for i in range(3)])),
                 ("L2 g_x(omega+delta) = cos(d) g_x + sin(d) g_y", B[0] == cd * A[0] + sd * A[1]),
                 ("L2 g_y(omega+delta) = -sin(d) g_x + cos(d) g_y", B[1] == -sd * A[0] + cd * A[1]),
                 ("L2 g_z(omega+delta) = g_z (rotation about the axis)", B[2] == A[2])]
        return dict(goals=goals, inputs=dict(tth=tth.t, eta=eta.t, omega=om.t, lam=lam.t, wedge=wedge.t, chi=chi.t, delta=dl.t))
    return run

def replay_forward(TR):
    def replay(v, label):
        tth, eta, om = np.array([v["tth"]]), np.array([v["eta"]]), np.array([v["omega"]])
        g = TR.compute_g_vectors(tth, eta, om, v["lam"], v["wedge"], v["chi"])[:, 0]
        want = 2 * math.sin(math.radians(v["tth"]) / 2) / v["lam"]; got = float(np.sqrt((g * g).sum()))
        if abs(got - abs(want)) > 1e-9 * max(1.0, abs(want)): return True, "|g| = %r but 2 sin(theta)/lambda = %r at tth=%r eta=%r omega=%r wedge=%r chi=%r" % (got, want, v["tth"], v["eta"], v["omega"], v["wedge"], v["chi"])
        g2 = TR.compute_g_vectors(tth, eta, om + v["delta"], v["lam"], v["wedge"], v["chi"])[:, 0]
        c, s = math.cos(math.radians(v["delta"])), math.sin(math.radians(v["delta"]))
        w = np.array([c * g[0] + s * g[1], -s * g[0] + c * g[1], g[2]])
        if not np.allclose(g2, w, rtol=1e-9, atol=1e-9 * max(1.0, got)): return True, "g(omega+delta) = %s is not the rotation %s of g(omega)" % (g2.tolist(), w.tolist())
        return False, "laws hold numerically at the model point"
    return replay

# ------------------------------------------------------------------------------------------------ C kernel
def mk_ckernel(mod, osign):
    def run():
        x = [z3.Real(n) for n in ("xl", "yl", "zl")]; om, lam, wedge, chi = [z3.Real(n) for n in ("omega", "lam", "wedge", "chi")]; t = [z3.Real(n) for n in ("t_x", "t_y", "t_z")]
        CTX.hyp.append(lam > 0)
        it = Interp(mod); it.assume_fdiv_nonzero = True
        xo = mkobj(it, "xyz", x, "double", "const"); oo = mkobj(it, "omega", [om], "double", "const"); to = mkobj(it, "t", t, "double", "const"); out = outobj(it, "gv", 3, "double")
        it.call("compute_gv", [Ptr(xo, 0), Ptr(oo, 0), Fraction(osign), lam, wedge, chi, Ptr(to, 0), Ptr(out, 0), 1])
        loc = it.lastframe; rdv = lambda ob, n: [to_real(ob.mem[8 * i][0]) for i in range(n)]
        d, k, gv = rdv(loc["d"], 3), rdv(loc["k"], 3), rdv(out, 3); m = to_real(loc["modyz"].mem[0][0])
        K = [z3.Real("K%d" % i) for i in range(3)]; gK = [z3.substitute(e, *[(k[i], K[i]) for i in range(3)]) for e in gv]
        goals = [("no-memory-event", z3.BoolVal(not it.events)),
                 ("L1c |gv|^2 = |k|^2 for every k (C rotation chain preserves length)", n2(gK) == n2(K)),
                 ("L1c |k|^2.lambda^2 = 2 - 2 cos(2 theta) = 4 sin^2(theta) with cos(2 theta) = d_x/|d|", n2(k) * lam * lam == 2 - 2 * d[0] * m),
                 ("L1c modyz = 1/|d|", z3.And(m > 0, m * m * n2(d) == 1))]
        # compute_geometry (tth, eta, ds, gx, gy, gz) on the same peak: its columns obey the same laws and agree with compute_gv
        it2 = Interp(mod); it2.assume_fdiv_nonzero = True
        xo2 = mkobj(it2, "xyz", x, "double", "const"); oo2 = mkobj(it2, "omega", [om], "double", "const"); to2 = mkobj(it2, "t", t, "double", "const"); out2 = outobj(it2, "geo", 6, "double")
        it2.call("compute_geometry", [Ptr(xo2, 0), Ptr(oo2, 0), Fraction(osign), lam, wedge, chi, Ptr(to2, 0), Ptr(out2, 0), 1])
        geo = rdv(out2, 6); k2 = rdv(it2.lastframe["k"], 3)
        subK = [(k2[i], K[i]) for i in range(3)]; geoK = [z3.substitute(e, *subK) for e in geo]
        d2 = rdv(it2.lastframe["d"], 3); Dv = [z3.Real("D%d" % i) for i in range(3)]; subD = [(d2[i], Dv[i]) for i in range(3)]
        # tth column = DEG * atan2(y, x): the atan2 application is taken from the RAW term (so that the cut d -> D reaches its arguments) and the
        # half angle is introduced by its defining equations
        def find_atan2(e):
            st = [e]
            while st:
                q = st.pop()
                if z3.is_app(q) and q.decl().name() == "atan2": return q
                st.extend(q.children())
        at = find_atan2(geo[0])
        if at is None: raise symcore.Inconclusive("the tth column of compute_geometry is not built from atan2")
        degfac = CTX.fresh("degfac"); ay, ax = at.arg(0), at.arg(1); ar = symcore.sqrt_(ax * ax + ay * ay); ch, sh = CTX.fresh("cosh"), CTX.fresh("sinh")
        CTX.hyp += [ar > 0, ch * ch + sh * sh == 1, ch * ch - sh * sh == ax / ar, 2 * sh * ch == ay / ar, ch >= 0]
        goals += [("no-memory-event (compute_geometry)", z3.BoolVal(not it2.events)),
                  ("L1c compute_geometry: |g|^2 = |k|^2 for every k", n2(geoK[3:6]) == n2(K)),
                  ("L1c compute_geometry: ds^2 = |k|^2, ds >= 0", z3.And(geo[2] * geo[2] == n2(k2), geo[2] >= 0), subK),
                  ("L1c compute_geometry: |k|^2.lambda^2 = 4 sin^2(tth/2) with its own tth column (d cut)", n2(k2) * lam * lam == 4 * sh * sh, subD)]
        goals += [("L1c compute_geometry: tth is in degrees (factor = double(180/pi))", geo[0] == z3.RealVal(Fraction(180) / symcore.PIq) * at)]
        # the two kernels agree, staged at their common cut points d and k
        subDg = [(d[i], Dv[i]) for i in range(3)]
        goals += [("L1c compute_geometry and compute_gv: same difference vector d [%d]" % i, d2[i] == d[i]) for i in range(3)]
        goals += [("L1c compute_geometry and compute_gv: same k for the same d [%d]" % i, z3.substitute(k2[i], *subD) == z3.substitute(k[i], *subDg)) for i in range(3)]
        goals += [("L1c compute_geometry and compute_gv: same g for the same k [%d]" % i, geoK[3 + i] == gK[i]) for i in range(3)]
        inputs = dict(xl=x[0], yl=x[1], zl=x[2], omega=om, lam=lam, wedge=wedge, chi=chi, t_x=t[0], t_y=t[1], t_z=t[2])
        return dict(goals=goals, inputs=inputs)
    return run

def replay_ckernel(TR, osign):
    def replay(v, label):
        import ctypes as C, creplay
        L = creplay.lib(); xyz = np.array([[v["xl"], v["yl"], v["zl"]]]); om = np.array([v["omega"]]); t = np.array([v["t_x"], v["t_y"], v["t_z"]]); gv = np.zeros((1, 3))
        L.compute_gv(creplay.dptr(xyz), creplay.dptr(om), C.c_double(osign), C.c_double(v["lam"]), C.c_double(v["wedge"]), C.c_double(v["chi"]), creplay.dptr(t), creplay.dptr(gv), 1)
        tth, eta = TR.compute_tth_eta_from_xyz(xyz.T, om * osign, t_x=t[0], t_y=t[1], t_z=t[2], wedge=v["wedge"], chi=v["chi"])
        want = 2 * math.sin(math.radians(tth[0]) / 2) / v["lam"]; got = float(np.sqrt((gv * gv).sum()))
        if not (abs(got - want) <= 1e-9 * max(1.0, want)): return True, "compute_gv: |g| = %r but 2 sin(theta)/lambda = %r" % (got, want)
        geo = np.zeros((1, 6))
        L.compute_geometry(creplay.dptr(xyz), creplay.dptr(om), C.c_double(osign), C.c_double(v["lam"]), C.c_double(v["wedge"]), C.c_double(v["chi"]), creplay.dptr(t), creplay.dptr(geo), 1)
        if not np.allclose(geo[0, 3:], gv[0], rtol=1e-9, atol=1e-9 * max(got, 1e-300)): return True, "compute_geometry g = %s but compute_gv g = %s (wedge=%r chi=%r t=%s)" % (geo[0, 3:].tolist(), gv[0].tolist(), v["wedge"], v["chi"], t.tolist())
        w2 = 2 * math.sin(math.radians(geo[0, 0]) / 2) / v["lam"]
        if not (abs(geo[0, 2] - w2) <= 1e-9 * max(1.0, w2) and abs(geo[0, 2] - got) <= 1e-9 * max(1.0, got)): return True, "compute_geometry: ds = %r, 2 sin(tth/2)/lambda = %r, |g| = %r" % (geo[0, 2], w2, got)
        return False, "|g| = 2 sin(theta)/lambda at the model point"
    return replay

# ------------------------------------------------------------------------------------------------ inverse
SGN = (1, 1, -1)
def mk_inverse(TR, GG, mode, roundtrip=False):
    """mode '00': wedge = chi = 0.  'P': wedgechi / chiwedge are cut: they return havoc matrices constrained by the wiring lemma G1
    (row 0 of wedgechi is a unit vector p, column 0 of chiwedge is (p0, p1, -p2)).  'direct': the real wedgechi / chiwedge (stretch)."""
    general = mode != "00"
    def run():
        symcore.Explorer.lazy = False
        g = col("g0", "g1", "g2"); lam = var("lam"); CTX.hyp.append(lam.t > 0)
        wedge, chi = (var("wedge"), var("chi")) if general else (0.0, 0.0)
        rec = RecNP(); cap = {"k": [], "pre": [], "calls": []}
        extra = []
        if mode == "P":
            CTX.hyp.append(wedge.t != 0)
            Pm = pysym.mat("P"); Qm = pysym.mat("Q")
            CTX.hyp += [T(Qm[j, 0]) == SGN[j] * T(Pm[0, j]) for j in range(3)] + [n2([T(Pm[0, j]) for j in range(3)]) == 1]
            def wedgechi(wedge=0., chi=0.): cap["calls"].append(("wedgechi", wedge, chi)); return Pm
            def chiwedge(chi=0., wedge=0.): cap["calls"].append(("chiwedge", wedge, chi)); return Qm
            extra = [(GG, "wedgechi", wedgechi), (GG, "chiwedge", chiwedge)]
        orig = GG.k_to_g
        def k_to_g(k, angles, axis=None, pre=None, post=None):
            r = orig(k, angles, axis=axis, pre=pre, post=post); cap["k"].append(r); cap["pre"].append(pre); cap.setdefault("k_args", []).append((k, angles, axis, post)); return r
        orig_g2k = GG.g_to_k
        def g_to_k(*a, **kw):
            r = orig_g2k(*a, **kw); cap["valid"] = r[2]; cap["g2k"] = (a, kw, r); cap["ndom"] = len(CTX.domain); return r
        gz = [T(g[i, 0]) for i in range(3)]; gg = n2(gz)
        with ctx(TR, GG, [(GG, "np", rec)]):
            with patched(*([(GG, "k_to_g", k_to_g), (GG, "g_to_k", g_to_k)] + extra)):
                tth, (eta1, eta2), (om1, om2) = TR.uncompute_g_vectors(g, lam, wedge, chi)
            valid = bool(cap["valid"][0])
            rb2, rb1 = rec.atan2_args[0]; den2 = T(rb1[0]) * T(rb1[0]) + T(rb2[0]) * T(rb2[0])
            # arcsin domains: those of g_to_k (quot) directly; the one of uncompute_g_vectors itself (sin(theta) = |g| lambda / 2) directly for wedge = chi = 0 and,
            # on the valid paths of the cut general run, through the Cauchy-Schwarz lemmas CS1-CS3 + glue (the direct NRA query stays unknown)
            goals = [("D arcsin argument inside [-1, 1] (%d)" % i, z3.And(q >= -1, q <= 1)) for i, (_, q) in enumerate(CTX.domain) if not (mode == "P" and valid and i >= cap["ndom"])]
            k1, k2 = cap["k"][0], cap["k"][1]
            if valid:
                for nm, k in (("1", k1), ("2", k2)):
                    kz = [T(k[i, 0]) for i in range(3)]
                    if mode != "P": goals.append(("S1 solution %s: rotated vector is on the Ewald sphere (2 k_x = -lambda |g|^2)" % nm, 2 * kz[0] == -lam.t * gg))
                ds = symcore.sqrt_(gg)
                goals.append(("W tth = degrees(2 asin(|g| lambda / 2))", T(tth[0]) == 2 * ASIN(ds * lam.t / 2) * 180 / PI))
                goals.append(("W eta1 = degrees(atan2(-k_y, k_z)) of solution 1", T(eta1[0]) == ATAN2(-T(k1[1, 0]), T(k1[2, 0])) * 180 / PI))
                goals.append(("W eta2 = degrees(atan2(-k_y, k_z)) of solution 2", T(eta2[0]) == ATAN2(-T(k2[1, 0]), T(k2[2, 0])) * 180 / PI))
                if roundtrip:
                    for nm, e, o in (("1", eta1, om1), ("2", eta2, om2)):
                        grt = TR.compute_g_vectors(tth, e, o, lam, wedge, chi)
                        goals += [("RT solution %s: compute_g_vectors(uncompute_g_vectors(g)) = g [%d]" % (nm, i), T(grt[i, 0]) == gz[i]) for i in range(3)]
            else:
                goals += [("L4 invalid vectors get every angle masked to 0 (%s)" % nm, T(a[0]) == 0) for nm, a in (("tth", tth), ("eta1", eta1), ("eta2", eta2), ("omega1", om1), ("omega2", om2))]
                omx = var("omega_any")
                kx = orig(g, arr1(omx), axis=[0, 0, 1], pre=cap["pre"][0])
                unreachable = 2 * T(kx[0, 0]) != -lam.t * gg
                if mode != "P": goals.append(("L4 flagged invalid => no rotation about the axis reaches the Ewald sphere", z3.Implies(den2 > 0, unreachable)))
                if not general:
                    goals.append(("L4 blind direction (g on the axis, g != 0) can never diffract", z3.Implies(z3.And(den2 == 0, gg > 0), unreachable)))
        goals.append(("W both solutions are passed through the same pre-rotation", z3.BoolVal(cap["pre"][0] is cap["pre"][1] or mode == "direct")))
        a, kw, r = cap["g2k"]
        same = lambda x, y: x is y or (isinstance(x, np.ndarray) and isinstance(y, np.ndarray) and x.shape == y.shape and all(p is q for p, q in zip(x.ravel(), y.ravel())))
        goals.append(("W g_to_k is called as g_to_k(g, wavelength, axis=[0,0,-1], pre=None, post=wedgechi)", z3.BoolVal(len(a) == 2 and a[0] is g and a[1] is lam and list(kw.get("axis")) == [0, 0, -1] and kw.get("pre") is None and (mode == "direct" or (kw.get("post") is None) == (not general)))))
        goals.append(("W k_to_g is called with (g, omega1 | omega2, axis=[0,0,1], post=None)", z3.BoolVal(len(cap["k_args"]) == 2 and all(x[0] is g and list(x[2]) == [0, 0, 1] and x[3] is None for x in cap["k_args"]) and cap["k_args"][0][1] is r[0] and cap["k_args"][1][1] is r[1])))
        inputs = dict(g0=gz[0], g1=gz[1], g2=gz[2], lam=lam.t)
        if mode == "P":
            goals.append(("W post = wedgechi(...) and pre = chiwedge(...)^T", z3.BoolVal(kw.get("post") is Pm and same(cap["pre"][0], Qm.T))))
        if mode == "direct": inputs.update(wedge=wedge.t, chi=chi.t)
        if mode == "P":
            inputs.update(p0=T(Pm[0, 0]), p1=T(Pm[0, 1]), p2=T(Pm[0, 2]))
            goals.append(("W uncompute_g_vectors builds post = wedgechi(wedge, chi) and pre = chiwedge(wedge, chi)^T from its own arguments",
                          z3.BoolVal(sorted(c[0] for c in cap["calls"]) == ["chiwedge", "wedgechi"] and all(c[1] is wedge and c[2] is chi for c in cap["calls"]))))
        return dict(goals=goals, inputs=inputs)
    return run

def replay_inverse(TR, GG):
    def replay(v, label):
        g = np.array([[v["g0"]], [v["g1"]], [v["g2"]]], float); lam = v["lam"]; wedge, chi = v.get("wedge", 0.0), v.get("chi", 0.0)
        if "p0" in v:      # cut-point model: recover (wedge, chi) from the unit row p = (cos w, -sin w sin c, sin w cos c)
            wedge = math.degrees(math.acos(max(-1.0, min(1.0, v["p0"])))); chi = math.degrees(math.atan2(-v["p1"], v["p2"])) if (v["p1"] or v["p2"]) else 0.0
        with np.errstate(all="ignore"):
            tth, (e1, e2), (o1, o2) = TR.uncompute_g_vectors(g, lam, wedge, chi)
            post = None if wedge == chi == 0 else GG.wedgechi(wedge=wedge, chi=chi)
            _, _, valid = GG.g_to_k(g, lam, axis=[0, 0, -1], pre=None, post=post)
        gn = float(np.sqrt((g * g).sum()))
        if valid[0]:
            for e, o in ((e1, o1), (e2, o2)):
                if not (np.isfinite(tth).all() and np.isfinite(e).all() and np.isfinite(o).all()):
                    return True, "g=%s lambda=%r wedge=%r chi=%r is flagged valid but tth/eta/omega = %s/%s/%s" % (g[:, 0].tolist(), lam, wedge, chi, tth.tolist(), e.tolist(), o.tolist())
                rt = TR.compute_g_vectors(tth, e, o, lam, wedge, chi)
                if not np.allclose(rt, g, rtol=1e-7, atol=1e-7 * max(gn, 1e-300)):
                    return True, "round trip of g=%s (lambda=%r wedge=%r chi=%r) returns %s" % (g[:, 0].tolist(), lam, wedge, chi, rt[:, 0].tolist())
            return False, "flagged valid, both round trips return g"
        if any(float(a[0]) != 0 for a in (tth, e1, e2, o1, o2)): return True, "g=%s lambda=%r wedge=%r chi=%r is flagged invalid but tth, eta1, eta2, omega1, omega2 = %s are not all masked to 0" % (g[:, 0].tolist(), lam, wedge, chi, [float(a[0]) for a in (tth, e1, e2, o1, o2)])
        pre = None if post is None else GG.chiwedge(wedge=wedge, chi=chi).T
        oms = np.linspace(0, 360, 72001); ks = GG.k_to_g(np.repeat(g, len(oms), axis=1), oms, axis=[0, 0, 1], pre=pre)
        f = 2 * ks[0] + lam * gn * gn
        if f.min() < -1e-9 * max(1.0, gn) and f.max() > 1e-9 * max(1.0, gn):
            return True, "g=%s lambda=%r wedge=%r chi=%r is flagged invalid but crosses the Ewald sphere near omega=%r" % (g[:, 0].tolist(), lam, wedge, chi, float(oms[np.argmin(abs(f))]))
        return False, "flagged invalid and never on the sphere"
    return replay

def slice_g_to_k(GG, ns):
    """split the CURRENT source of gv_general.g_to_k at the statement `phi = ...` into head (vector algebra -> rbda0, rbda1, rbda2, kdotbeam)
    and tail (scalar trigonometry -> omega1, omega2, valid); the two halves are compiled from the unmodified statements"""
    import ast, inspect, textwrap, builtins
    fn = ast.parse(textwrap.dedent(inspect.getsource(GG.g_to_k))).body[0]
    idx = [i for i, st in enumerate(fn.body) if isinstance(st, ast.Assign) and any(isinstance(t, ast.Name) and t.id == "phi" for t in st.targets)]
    if len(idx) != 1 or not isinstance(fn.body[-1], ast.Return): raise symcore.Inconclusive("g_to_k no longer has the shape head / `phi = ...` / tail / return")
    head, tail = fn.body[:idx[0]], fn.body[idx[0]:]
    link = ["rbda0", "rbda1", "rbda2", "kdotbeam"]
    assigned = set(); loaded = set()
    for st in tail:
        for n in ast.walk(st):
            if isinstance(n, ast.Name):
                if isinstance(n.ctx, ast.Load) and n.id not in assigned: loaded.add(n.id)
        for n in ast.walk(st):
            if isinstance(n, ast.Name) and isinstance(n.ctx, ast.Store): assigned.add(n.id)
    free = {n for n in loaded if n not in vars(GG) and not hasattr(builtins, n)}
    if not free <= set(link): raise symcore.Inconclusive("the tail of g_to_k reads %s besides %s" % (sorted(free - set(link)), link))
    ret = ast.Return(value=ast.Tuple(elts=[ast.Name(id=n, ctx=ast.Load()) for n in link], ctx=ast.Load()))
    fh = ast.FunctionDef(name="g_to_k_head", args=fn.args, body=head + [ret], decorator_list=[], returns=None, type_params=[])
    ft = ast.FunctionDef(name="g_to_k_tail", args=ast.arguments(posonlyargs=[], args=[ast.arg(arg=n) for n in link], kwonlyargs=[], kw_defaults=[], defaults=[]), body=tail, decorator_list=[], returns=None, type_params=[])
    m = ast.Module(body=[fh, ft], type_ignores=[]); ast.fix_missing_locations(m)
    exec(compile(m, "<g_to_k sliced>", "exec"), ns)
    return ns["g_to_k_head"], ns["g_to_k_tail"]

def mk_SL(TR, GG):
    """scalar lemma on the tail of g_to_k: for ARBITRARY rbda0, rbda1 = A, rbda2 = B, kdotbeam = K"""
    def run():
        symcore.Explorer.lazy = False
        R0, A, B, K = [var(n) for n in ("R0", "A", "B", "K")]
        with ctx(TR, GG):
            head, tail = slice_g_to_k(GG, dict(vars(GG)))
            o1, o2, valid = tail(arr1(R0), arr1(A), arr1(B), arr1(K))
            goals = [("D arcsin argument inside [-1, 1] (%d)" % i, z3.And(q >= -1, q <= 1)) for i, (_, q) in enumerate(CTX.domain)]
            if bool(valid[0]):
                for nm, o in (("1", o1), ("2", o2)):
                    c, s_ = NP.cos(NP.radians(o))[0], NP.sin(NP.radians(o))[0]
                    goals.append(("SL solution %s: A sin(omega) - B cos(omega) = kdotbeam - rbda0" % nm, A.t * T(s_) - B.t * T(c) == K.t - R0.t))
            else:
                ox = arr1(var("omega_any")); c, s_ = NP.cos(NP.radians(ox))[0], NP.sin(NP.radians(ox))[0]
                goals.append(("SL flagged invalid, den > 0 => A sin(x) - B cos(x) = kdotbeam - rbda0 has no solution", z3.Implies(A.t * A.t + B.t * B.t > 0, A.t * T(s_) - B.t * T(c) != K.t - R0.t)))
        return dict(goals=goals, inputs=dict(R0=R0.t, A=A.t, B=B.t, K=K.t))
    return run

def mk_LL(TR, GG):
    """linear lemma: the head of g_to_k and k_to_g describe the same rotation: k_x(omega) = lambda (rbda0 + rbda1 sin - rbda2 cos), kdotbeam = -|g|^2/2"""
    def run():
        g = col("g0", "g1", "g2"); lam = var("lam"); CTX.hyp.append(lam.t > 0); gz = [T(g[i, 0]) for i in range(3)]
        Pm = pysym.mat("P"); Qm = pysym.mat("Q"); CTX.hyp += [T(Qm[j, 0]) == SGN[j] * T(Pm[0, j]) for j in range(3)]
        ox = arr1(var("omega_any"))
        with ctx(TR, GG):
            head, tail = slice_g_to_k(GG, dict(vars(GG)))
            r0, r1, r2, K = head(g, lam, axis=[0, 0, -1], pre=None, post=Pm)
            k = GG.k_to_g(g, ox, axis=[0, 0, 1], pre=Qm.T)
            c, s_ = T(NP.cos(NP.radians(ox))[0]), T(NP.sin(NP.radians(ox))[0])
            with ctx(TR, GG): kk = GG.k_to_g(g, ox, axis=[0, 0, 1], pre=None)
        v = [T(kk[i, 0]) for i in range(3)]
        goals = [("LL k_x(omega) = lambda (rbda0 + rbda1 sin(omega) - rbda2 cos(omega)) for every omega", T(k[0, 0]) == lam.t * (T(r0[0]) + T(r1[0]) * s_ - T(r2[0]) * c)),
                 ("LL kdotbeam = -|g|^2 / 2", 2 * T(K[0]) == -n2(gz)),
                 ("CS1 the omega rotation of k_to_g preserves length: |R(omega) g|^2 = |g|^2", n2(v) == n2(gz)),
                 ("CS2 k_x = (row 0 of the pre-rotation) . (R(omega) g)", T(k[0, 0]) == sum(T(Qm[j, 0]) * v[j] for j in range(3)))]
        inputs = dict(g0=gz[0], g1=gz[1], g2=gz[2], lam=lam.t, p0=T(Pm[0, 0]), p1=T(Pm[0, 1]), p2=T(Pm[0, 2]))
        return dict(goals=goals, inputs=inputs)
    return run

def mk_glue():
    def run():
        R0, A, B, K, s, c, kx, lam, gg = [z3.Real(n) for n in ("R0", "A", "B", "K", "s", "c", "kx", "lam", "gg")]
        CTX.hyp += [lam > 0, kx == lam * (R0 + A * s - B * c), 2 * K == -gg]
        pv = [z3.Real("cs_p%d" % i) for i in range(3)]; vv_ = [z3.Real("cs_v%d" % i) for i in range(3)]; ds, pp, vv = z3.Real("ds"), z3.Real("pp"), z3.Real("vv")
        goals = [("CS3 Cauchy-Schwarz (p.v)^2 <= |p|^2 |v|^2", dot3(pv, vv_) * dot3(pv, vv_) <= n2(pv) * n2(vv_)),
                 ("glue S1 + CS1-3 => a vector flagged valid has |g| lambda / 2 in [0, 1] (domain of the arcsin that gives tth)",
                  z3.Implies(z3.And(kx * kx <= pp * vv, pp == 1, vv == gg, 2 * kx == -lam * gg, ds >= 0, ds * ds == gg), z3.And(ds * lam / 2 <= 1, ds * lam / 2 >= -1))),
                 ("glue SL + LL => solution on the Ewald sphere (2 k_x = -lambda |g|^2)", z3.Implies(A * s - B * c == K - R0, 2 * kx == -lam * gg)),
                 ("glue SL + LL => no solution of the scalar equation, no rotation reaches the sphere", z3.Implies(A * s - B * c != K - R0, 2 * kx != -lam * gg))]
        return dict(goals=goals, inputs={})
    return run

def mk_G1(TR, GG):
    def run():
        wedge, chi = var("wedge"), var("chi")
        with ctx(TR, GG):
            P = GG.wedgechi(wedge=wedge, chi=chi); Q = GG.chiwedge(wedge=wedge, chi=chi)
        goals = [("G1 chiwedge^T row 0 = (p0, p1, -p2) of wedgechi row 0 [%d]" % j, T(Q[j, 0]) == SGN[j] * T(P[0, j])) for j in range(3)]
        goals.append(("G1 wedgechi row 0 is a unit vector", n2([T(P[0, j]) for j in range(3)]) == 1))
        return dict(goals=goals, inputs=dict(wedge=wedge.t, chi=chi.t))
    return run

def mk_L3b(TR, GG):
    def run():
        k = col("k0", "k1", "k2"); lam = var("lam"); kz = [T(k[i, 0]) for i in range(3)]
        CTX.hyp += [lam.t > 0, 2 * kz[0] == -lam.t * n2(kz), kz[1] * kz[1] + kz[2] * kz[2] > 0]
        with ctx(TR, GG):
            ds = NP.sqrt(np.sum(k * k, 0)); tth = NP.degrees(NP.arcsin(ds * lam / 2.0) * 2.); eta = NP.degrees(NP.arctan2(-k[1, :], k[2, :]))
            kk = TR.compute_k_vectors(tth, eta, lam)
        goals = [("D arcsin argument inside [-1, 1] (%d)" % i, z3.And(q >= -1, q <= 1)) for i, (_, q) in enumerate(CTX.domain)]
        goals += [("L3b compute_k_vectors(tth(|k|), eta(k)) = k for k on the Ewald sphere [%d]" % i, T(kk[i, 0]) == kz[i]) for i in range(3)]
        return dict(goals=goals, inputs=dict(k0=kz[0], k1=kz[1], k2=kz[2], lam=lam.t))
    return run

def replay_L3b(TR):
    def replay(v, label):
        k = np.array([v["k0"], v["k1"], v["k2"]]); lam = v["lam"]; ds = np.sqrt((k * k).sum())
        k[0] = -lam * ds * ds / 2          # put the float point back on the sphere (the model is algebraic)
        ds = np.sqrt((k * k).sum())
        with np.errstate(all="ignore"):
            tth = np.degrees(np.arcsin(ds * lam / 2) * 2); eta = np.degrees(np.arctan2(-k[1], k[2])); kk = TR.compute_k_vectors(np.array([tth]), np.array([eta]), lam)[:, 0]
        if not np.allclose(kk, k, rtol=1e-6, atol=1e-9 * max(1, ds)): return True, "compute_k_vectors(tth, eta) = %s for k = %s" % (kk.tolist(), k.tolist())
        return False, "k reproduced numerically"
    return replay

def mk_L3c(TR, GG):
    def run():
        g = col("g0", "g1", "g2"); om, wedge, chi = var("omega"), var("wedge"), var("chi"); gz = [T(g[i, 0]) for i in range(3)]
        with ctx(TR, GG):
            pre = None if (wedge == chi == 0) else GG.chiwedge(wedge=wedge, chi=chi).T
            k = GG.k_to_g(g, arr1(om), axis=[0, 0, 1], pre=pre)
            gb = TR.compute_g_from_k(k, arr1(om), wedge, chi)
        kz = [T(k[i, 0]) for i in range(3)]
        goals = [("L3c compute_g_from_k(k_to_g(g, omega, pre=chiwedge^T), omega, wedge, chi) = g [%d]" % i, T(gb[i, 0]) == gz[i]) for i in range(3)]
        goals.append(("L3c |k_to_g(g)|^2 = |g|^2", n2(kz) == n2(gz)))
        return dict(goals=goals, inputs=dict(g0=gz[0], g1=gz[1], g2=gz[2], omega=om.t, wedge=wedge.t, chi=chi.t))
    return run

def replay_L3c(TR, GG):
    def replay(v, label):
        g = np.array([[v["g0"]], [v["g1"]], [v["g2"]]], float); om = np.array([v["omega"]]); wedge, chi = v["wedge"], v["chi"]
        pre = None if wedge == chi == 0 else GG.chiwedge(wedge=wedge, chi=chi).T
        k = GG.k_to_g(g, om, axis=[0, 0, 1], pre=pre); gb = TR.compute_g_from_k(k, om, wedge, chi); gn = float(np.sqrt((g * g).sum()))
        if not np.allclose(gb, g, rtol=1e-9, atol=1e-9 * max(gn, 1e-300)): return True, "compute_g_from_k(k_to_g(g)) = %s for g = %s omega=%r wedge=%r chi=%r" % (gb[:, 0].tolist(), g[:, 0].tolist(), om[0], wedge, chi)
        return False, "inverse rotation reproduced numerically"
    return replay

# ------------------------------------------------------------------------------------------------ detector projection and back (L5)
DETP = ("y_center", "y_size", "tilt_y", "z_center", "z_size", "tilt_z", "tilt_x", "distance", "o11", "o12", "o21", "o22")
def cross3(a, b): return [a[1] * b[2] - a[2] * b[1], a[2] * b[0] - a[0] * b[2], a[0] * b[1] - a[1] * b[0]]
def dot3(a, b): return sum(a[i] * b[i] for i in range(3))

def mk_AFF(TR, GG):
    """compute_xyz_lab is affine in the pixel coordinates, for every detector parameter set (tilts, flips, sizes, centre, distance)"""
    def run():
        P = {n: var(n) for n in DETP}; sc, fc = var("sc"), var("fc")
        with ctx(TR, GG):
            pks = np.array([(1, 0), (0, 1), (0, 0)], dtype=object).T
            d = TR.compute_xyz_lab(pks, **P); X = TR.compute_xyz_lab(np.array([[sc], [fc]], dtype=object), **P)
        goals = [("AFF compute_xyz_lab([sc, fc]) = dO + sc.(lab(1,0) - dO) + fc.(lab(0,1) - dO) [%d]" % i,
                  T(X[i, 0]) == T(d[i, 2]) + sc.t * (T(d[i, 0]) - T(d[i, 2])) + fc.t * (T(d[i, 1]) - T(d[i, 2]))) for i in range(3)]
        return dict(goals=goals, inputs={n: v.t for n, v in P.items()})
    return run

def _detector_stubs(cap):
    Ds, Df, dO, go = [[z3.Real("%s%d" % (n, i)) for i in range(3)] for n in ("Ds", "Df", "dO", "go")]
    def lab(pks, **kw):
        cap["lab"] = (np.asarray(pks, float).tolist(), kw)
        return np.array([[Sym(dO[i] + Ds[i]), Sym(dO[i] + Df[i]), Sym(dO[i])] for i in range(3)], dtype=object)
    def origins(omega, wedge=0.0, chi=0.0, t_x=0.0, t_y=0.0, t_z=0.0):
        cap.setdefault("go", []).append((omega, wedge, chi, t_x, t_y, t_z))
        return np.array([[Sym(go[i])] for i in range(3)], dtype=object)
    return Ds, Df, dO, go, lab, origins

def mk_RAY(TR, GG):
    """ray / detector-plane intersection: the returned pixel lies on the ray from the grain origin along the unit vector of (tth, eta)"""
    def run():
        symcore.Explorer.lazy = False
        tth, eta, om, tx, ty, tz, wedge, chi = [var(n) for n in ("tth", "eta", "omega", "t_x", "t_y", "t_z", "wedge", "chi")]
        cap = {}; Ds, Df, dO, go, lab, origins = _detector_stubs(cap); sentinel = {n: var(n) for n in DETP}
        oma = arr1(om)
        with ctx(TR, GG, [(TR, "compute_xyz_lab", lab), (TR, "compute_grain_origins", origins)]):
            fc, sc = TR.compute_xyz_from_tth_eta(arr1(tth), arr1(eta), oma, t_x=tx, t_y=ty, t_z=tz, wedge=wedge, chi=chi, **sentinel)
            ct, st = T(NP.cos(NP.radians(arr1(tth)))[0]), T(NP.sin(NP.radians(arr1(tth)))[0]); ce, se = T(NP.cos(NP.radians(arr1(eta)))[0]), T(NP.sin(NP.radians(arr1(eta)))[0])
        u = [ct, -st * se, st * ce]; anyt = z3.Or(tx.t != 0, ty.t != 0, tz.t != 0); gov = [z3.If(anyt, go[i], z3.RealVal(0)) for i in range(3)]
        nvec = cross3(Ds, Df); norm = dot3(nvec, u)
        # sc, fc are sums of quotients by the same denominator; their numerators are extracted structurally (exact algebra for norm != 0), so
        # that every goal is a division-free polynomial identity
        den = [None]
        def numer(t):
            if z3.is_app(t) and t.decl().kind() == z3.Z3_OP_DIV:
                if den[0] is None: den[0] = t.arg(1)
                if not den[0].eq(t.arg(1)): raise symcore.Inconclusive("quotients with different denominators in sc / fc")
                return t.arg(0)
            if z3.is_add(t): return sum((numer(c) for c in t.children()), z3.RealVal(0))
            if z3.is_mul(t) and t.num_args() == 2 and z3.is_rational_value(t.arg(0)): return t.arg(0) * numer(t.arg(1))
            raise symcore.Inconclusive("sc / fc is not a sum of quotients: %s" % t.decl().name())
        masked = any(z3.is_app(T(a[0])) and T(a[0]).decl().kind() == z3.Z3_OP_ITE for a in (sc, fc))
        goals = []
        if masked:
            goals.append(("RAY the mask branch is taken only for rays parallel to the detector plane, which get (0, 0)", z3.And(norm == 0, T(sc[0]) == 0, T(fc[0]) == 0)))
        else:
            SC, FC = numer(T(sc[0])), numer(T(fc[0]))
            goals.append(("RAY the common denominator is n.u = (ds x df).u and is non-zero on this path", z3.And(den[0] == norm, norm != 0)))
            for cond, gv_, tag in ((anyt, go, "translated grain"), (z3.Not(anyt), [z3.RealVal(0)] * 3, "grain at the origin")):
                PGn = [norm * (dO[i] - gv_[i]) + SC * Ds[i] + FC * Df[i] for i in range(3)]
                goals += [("RAY (%s) pixel - grain origin is parallel to the scattered ray [%d]" % (tag, i), z3.Implies(cond, c == 0)) for i, c in enumerate(cross3(PGn, u))]
                goals.append(("RAY (%s) distance along the ray: mu = n.(dO - origin) / n.u" % tag, z3.Implies(cond, dot3(PGn, u) == dot3(nvec, [dO[i] - gv_[i] for i in range(3)]) * dot3(u, u))))
        okgo = all(c[0] is oma and c[1] is wedge and c[2] is chi and c[3] is tx and c[4] is ty and c[5] is tz for c in cap.get("go", []))
        goals.append(("W compute_xyz_from_tth_eta: detector keywords go to compute_xyz_lab on pixels (1,0),(0,1),(0,0); (omega, wedge, chi, t) go to compute_grain_origins",
                      z3.BoolVal(cap["lab"][0] == [[1.0, 0.0, 0.0], [0.0, 1.0, 0.0]] and set(cap["lab"][1]) == set(DETP) and all(cap["lab"][1][n] is sentinel[n] for n in DETP) and okgo)))
        return dict(goals=goals, inputs={})
    return run

def mk_BACK(TR, GG):
    """compute_tth_eta_from_xyz on a point at distance mu > 0 along the ray from the grain origin returns the angles of the ray"""
    def run():
        symcore.Explorer.lazy = False
        tth, eta, om, tx, ty, tz, wedge, chi, mu = [var(n) for n in ("tth", "eta", "omega", "t_x", "t_y", "t_z", "wedge", "chi", "mu")]
        cap = {}; Ds, Df, dO, go, lab, origins = _detector_stubs(cap); oma = arr1(om)
        with ctx(TR, GG, [(TR, "compute_grain_origins", origins)]):
            ct, st = T(NP.cos(NP.radians(arr1(tth)))[0]), T(NP.sin(NP.radians(arr1(tth)))[0]); ce, se = T(NP.cos(NP.radians(arr1(eta)))[0]), T(NP.sin(NP.radians(arr1(eta)))[0])
            u = [ct, -st * se, st * ce]; anyt = z3.Or(tx.t != 0, ty.t != 0, tz.t != 0); gov = [z3.If(anyt, go[i], z3.RealVal(0)) for i in range(3)]
            CTX.hyp += [mu.t > 0, st >= 0]
            P = np.array([[Sym(gov[i] + mu.t * u[i])] for i in range(3)], dtype=object)
            tth2, eta2 = TR.compute_tth_eta_from_xyz(P, oma, t_x=tx, t_y=ty, t_z=tz, wedge=wedge, chi=chi)
            c2, s2 = T(NP.cos(NP.radians(tth2))[0]), T(NP.sin(NP.radians(tth2))[0]); ce2, se2 = T(NP.cos(NP.radians(eta2))[0]), T(NP.sin(NP.radians(eta2))[0])
        goals = [("BACK cos(tth') = cos(tth), sin(tth') = sin(tth) for tth in [0, 180]", z3.And(c2 == ct, s2 == st)),
                 ("BACK cos(eta') = cos(eta), sin(eta') = sin(eta) for tth in (0, 180)", z3.Implies(st > 0, z3.And(ce2 == ce, se2 == se)))]
        okgo = all(c[0] is oma and c[1] is wedge and c[2] is chi and c[3] is tx and c[4] is ty and c[5] is tz for c in cap.get("go", []))
        goals.append(("W compute_tth_eta_from_xyz: (omega, wedge, chi, t) go to compute_grain_origins in this order", z3.BoolVal(okgo)))
        return dict(goals=goals, inputs={})
    return run

def mk_GO0(TR, GG):
    def run():
        om, wedge, chi = var("omega"), var("wedge"), var("chi")
        with ctx(TR, GG): go = TR.compute_grain_origins(arr1(om), wedge=wedge, chi=chi, t_x=0.0, t_y=0.0, t_z=0.0)
        return dict(goals=[("GO0 the grain origin of a zero translation is the origin [%d]" % i, T(go[i, 0]) == 0) for i in range(3)], inputs={})
    return run

def mk_TTHETA(TR, GG):
    """compute_tth_eta = compute_tth_eta_from_xyz o compute_xyz_lab with every parameter passed through"""
    def run():
        cap = {}; sent = {n: var(n) for n in DETP}; t = {n: var(n) for n in ("t_x", "t_y", "t_z", "wedge", "chi")}; om = arr1(var("omega")); pk = np.array([[var("sc")], [var("fc")]], dtype=object)
        X = object(); R = (object(), object())
        def lab(peaks, **kw): cap["lab"] = (peaks, kw); return X
        def back(xyz, **kw): cap["back"] = (xyz, kw); return R
        with ctx(TR, GG, [(TR, "compute_xyz_lab", lab), (TR, "compute_tth_eta_from_xyz", back)]):
            r = TR.compute_tth_eta(pk, omega=om, **sent, **t)
        ok = cap["lab"][0] is pk and set(cap["lab"][1]) == set(DETP) and all(cap["lab"][1][n] is sent[n] for n in DETP) and cap["back"][0] is X and cap["back"][1].get("omega") is om \
            and all(cap["back"][1].get(n) is t[n] for n in t) and tuple(r) == R
        return dict(goals=[("W compute_tth_eta = compute_tth_eta_from_xyz(compute_xyz_lab(peaks, detector), t, omega, wedge, chi)", z3.BoolVal(bool(ok)))], inputs={})
    return run

def replay_detector(TR):
    def replay(v, label):
        rng = np.random.RandomState(common.SEED + 2)
        for o11, o12, o21, o22 in ((1, 0, 0, -1), (0, 1, -1, 0), (0, -1, 1, 0), (-1, 0, 0, 1), (0, 1, 1, 0)):
            for wedge, chi in ((0.0, 0.0), (5.0, 0.0), (0.0, -7.0), (10.0, 15.0)):
                for t in ((0.0, 0.0, 0.0), (0.1, -0.2, 0.05), (0.0, 0.3, 0.0)):
                    p = dict(y_center=1000.0, z_center=1100.0, y_size=0.05, z_size=0.045, distance=200.0, tilt_x=0.03, tilt_y=-0.02, tilt_z=0.01, o11=o11, o12=o12, o21=o21, o22=o22, wedge=wedge, chi=chi, t_x=t[0], t_y=t[1], t_z=t[2])
                    tth = rng.uniform(1, 25, 8); eta = rng.uniform(-180, 180, 8); om = rng.uniform(-180, 180, 8)
                    fc, sc = TR.compute_xyz_from_tth_eta(tth, eta, om, **p)
                    tth2, eta2 = TR.compute_tth_eta(np.array([sc, fc]), omega=om, **p)
                    de = (eta2 - eta + 180) % 360 - 180
                    if not (np.allclose(tth2, tth, atol=1e-7) and np.allclose(de, 0, atol=1e-7)):
                        return True, "detector round trip fails for flip (%d,%d,%d,%d) wedge=%g chi=%g t=%s: tth %s -> %s, eta %s -> %s" % (o11, o12, o21, o22, wedge, chi, t, tth[:2].tolist(), tth2[:2].tolist(), eta[:2].tolist(), eta2[:2].tolist())
        return False, "detector round trips reproduce the angles on the sweep"
    return replay

# ------------------------------------------------------------------------------------------------ the geometry functions are pure: no call history
HPARS = dict(y_center=1011.5, y_size=47.25, tilt_y=0.0110, z_center=1033.25, z_size=-48.5, tilt_z=-0.0070, tilt_x=0.0040, distance=151234.0, o11=1.0, o12=0.0, o21=0.0, o22=-1.0)
HGEO = dict(t_x=13.0, t_y=-7.0, t_z=4.5, wedge=1.5, chi=-0.75)
def _hcall(m, fname, P):
    det = {k: P[k] for k in HPARS}; geo = {k: P[k] for k in HGEO}
    pk = np.array([[307.0], [1201.0]]); tth = np.array([7.25]); eta = np.array([33.0]); om = np.array([21.5])
    if any(isinstance(v, Sym) for v in P.values()):        # symbolic run: object arrays (constants wrapped), so that results can hold terms
        wrap = lambda a: np.array([Sym(z3.RealVal(Fraction(float(x)))) for x in a.ravel()], dtype=object).reshape(a.shape)
        pk, tth, eta, om = wrap(pk), wrap(tth), wrap(eta), wrap(om)
    if fname == "compute_xyz_lab": r = m.compute_xyz_lab(pk, **det)
    elif fname == "compute_tth_eta": r = m.compute_tth_eta(pk, omega=om, **det, **geo)
    elif fname == "compute_xyz_from_tth_eta": r = m.compute_xyz_from_tth_eta(tth, eta, om, **det, **geo)
    elif fname == "compute_grain_origins": r = m.compute_grain_origins(om, wedge=geo["wedge"], chi=geo["chi"], t_x=geo["t_x"], t_y=geo["t_y"], t_z=geo["t_z"])
    elif fname == "detector_rotation_matrix": r = m.detector_rotation_matrix(det["tilt_x"], det["tilt_y"], det["tilt_z"])
    else: raise KeyError(fname)
    return [x for a in (r if isinstance(r, (tuple, list)) else [r]) for x in np.asarray(a, dtype=object).ravel()]
def mk_history(TR, fname, keys):
    def run():
        return dict(goals=harness.history_goals(TR, fname, _hcall, dict(HPARS, **HGEO), order=keys), inputs={})
    return run
def replay_history(TR):
    def replay(v, label):
        fname = label.split()[1].split("(")[0]; k = label.split("(")[1].split(" ")[0]
        base = dict(HPARS, **HGEO); alt = {"o11": 0.0, "o12": 1.0, "o21": -1.0, "o22": 0.0}
        for newv in ([alt[k]] if k in alt else []) + [base[k] * 1.5 + 0.25, -base[k] - 0.125]:
            m1 = harness.fresh_module_copy(TR); m0 = harness.fresh_module_copy(TR)
            _hcall(m1, fname, base); got = [float(x) for x in _hcall(m1, fname, dict(base, **{k: newv}))]; want = [float(x) for x in _hcall(m0, fname, dict(base, **{k: newv}))]
            if not np.allclose(got, want, rtol=1e-12, atol=1e-9, equal_nan=True):
                return True, "transform.%s depends on the call history: with %s=%r after a call with %s=%r it returns %s, a first call returns %s" % (fname, k, newv, k, base[k], np.round(got, 6).tolist(), np.round(want, 6).tolist())
        return False, "second call equals a pristine first call on the real module"
    return replay

# ------------------------------------------------------------------------------------------------ main
def main():
    args = parse_args("C02"); ck = Check("C02", args.tier); thorough = args.tier == "thorough"
    symcore.ASIN_TOTAL[0] = True; symcore.ATAN2_TOTAL[0] = True; symcore.Explorer.lazy = True
    ir = common.build_ir(["cdiffraction"]); mod = Module(); mod.load(ir["cdiffraction"])
    import ImageD11.transform as TR, ImageD11.gv_general as GG
    ck.encoded("ImageD11/transform.py:compute_k_vectors, compute_g_from_k, compute_g_vectors, uncompute_g_vectors (pysym)",
               "ImageD11/gv_general.py:g_to_k, k_to_g, rotation_axis.__init__/to_matrix/rotate_vectors, angmod, wedgemat, chimat, wedgechi, chiwedge (pysym)",
               "ImageD11/transform.py:compute_xyz_lab, detector_rotation_matrix, compute_xyz_from_tth_eta, compute_tth_eta_from_xyz, compute_tth_eta, compute_grain_origins (pysym)",
               "src/cdiffraction.c:compute_gv, compute_geometry (clang IR)")
    ck.bound("one peak; every real tth, eta, omega, delta, wedge, chi, lambda > 0 (forward laws); every real g, lambda > 0 with wedge = chi = 0 and with arbitrary wedge, chi (inverse); every k on the Ewald sphere with (k_y, k_z) != 0 (L3b)",
             "detector (L5): every real tilt, pixel size, centre, distance, flip matrix entry o11..o22, grain translation, omega, wedge, chi; tth in [0, 180], rays that hit the detector plane in the forward direction (mu > 0)",
             "C kernel: n = 1, omegasign = +1 and -1, every real xl, yl, zl, omega, t, wedge, chi, lambda > 0",
             "outside: floating-point rounding (|quot| within an ulp of 1), g on the rotation axis when wedge/chi tilt the beam (den = 0 with the Laue equation satisfied for every omega), eta at exact back-scattering (k_y = k_z = 0)")
    ck.bound("call histories: each geometry function twice on one module instance with ONE parameter changed (symbolic old and new value, the others generic concrete numbers) against the first call of a pristine module instance; longer histories and several parameters changing at once are outside")
    ck.assume("real-arithmetic model: angles enter through unit (cos, sin) pairs; atan2 / asin are uninterpreted with their defining (cos, sin) pairs; pi is the double constant",
              "arcsin outside [-1, 1] is an obligation (D), not a hypothesis", "division by zero in the C kernel is assumed away (|d| > 0: the peak is not at the grain origin)",
              "L5 is composed from AFF (pixel -> lab is affine), RAY (on fresh plane vectors and a fresh grain origin: compute_xyz_lab / compute_grain_origins are cut), BACK, GO0 and the wiring goals by congruence",
              "the round trip is composed from S1 + W + L3b + L3c by congruence; the monolithic composition is a stretch obligation of the thorough tier")
    tmo = 60000 if thorough else 30000
    jobs = []
    kf = lambda n, l: "law:" + l.split("[")[0][:48]
    jobs.append(("forward", mk_forward(TR, GG), dict(replay=replay_forward(TR), timeout_ms=tmo, keyfn=kf, expect_paths=4)))
    for osign in (1, -1):
        jobs.append(("compute_gv omegasign=%+d" % osign, mk_ckernel(mod, osign), dict(replay=replay_ckernel(TR, osign), timeout_ms=tmo, keyfn=kf)))
    jobs.append(("inverse wedge=chi=0", mk_inverse(TR, GG, "00"), dict(replay=replay_inverse(TR, GG), timeout_ms=tmo, keyfn=kf)))
    jobs.append(("inverse general (wedge/chi matrices cut)", mk_inverse(TR, GG, "P"), dict(replay=replay_inverse(TR, GG), timeout_ms=tmo, keyfn=kf)))
    jobs.append(("SL scalar tail of g_to_k", mk_SL(TR, GG), dict(replay=None, timeout_ms=tmo, keyfn=kf)))
    jobs.append(("LL head of g_to_k vs k_to_g", mk_LL(TR, GG), dict(replay=None, timeout_ms=tmo, keyfn=kf)))
    jobs.append(("glue", mk_glue(), dict(replay=None, timeout_ms=tmo, keyfn=kf)))
    jobs.append(("G1 wedge/chi wiring", mk_G1(TR, GG), dict(replay=None, timeout_ms=tmo, keyfn=kf)))
    jobs.append(("L3b", mk_L3b(TR, GG), dict(replay=replay_L3b(TR), timeout_ms=tmo, keyfn=kf)))
    jobs.append(("L3c", mk_L3c(TR, GG), dict(replay=replay_L3c(TR, GG), timeout_ms=tmo, keyfn=kf)))
    rd = replay_detector(TR)
    for nm, mk in (("AFF compute_xyz_lab affine", mk_AFF), ("RAY compute_xyz_from_tth_eta", mk_RAY), ("BACK compute_tth_eta_from_xyz", mk_BACK), ("GO0", mk_GO0), ("compute_tth_eta wiring", mk_TTHETA)):
        jobs.append((nm, mk(TR, GG), dict(replay=rd, timeout_ms=tmo, keyfn=kf)))
    hk = lambda n, l: "transform.py:%s:call-history" % l.split()[1].split("(")[0]
    for fname, keys in (("compute_xyz_from_tth_eta", list(HPARS) + list(HGEO)), ("compute_tth_eta", list(HPARS) + list(HGEO)), ("compute_xyz_lab", list(HPARS)), ("compute_grain_origins", list(HGEO)), ("detector_rotation_matrix", ["tilt_x", "tilt_y", "tilt_z"])):
        for k in keys:      # one parameter per job (the forks of successive parameters would multiply); hypotheses are only the trig-pair axioms: no vacuity query
            jobs.append(("history %s [%s]" % (fname, k), mk_history(TR, fname, [k]), dict(replay=replay_history(TR), timeout_ms=tmo, keyfn=hk, budget_s=300, vacuity=False)))
    if thorough:
        jobs.append(("inverse general (monolithic)", mk_inverse(TR, GG, "direct"), dict(replay=replay_inverse(TR, GG), timeout_ms=120000, keyfn=kf, stretch=True)))
        jobs.append(("roundtrip wedge=chi=0 (monolithic)", mk_inverse(TR, GG, "00", True), dict(replay=replay_inverse(TR, GG), timeout_ms=120000, keyfn=kf, stretch=True)))
    harness.run_parallel(ck, jobs)
    ck.finish("the real forward and inverse diffraction-geometry functions are executed on one symbolic peak; every law is a solver query over all real inputs of the stated ranges")

if __name__ == "__main__":
    common.run_main(main)
