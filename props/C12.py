"""
C12 - peak properties and frame-to-frame merging conserve pixels and intensity.
Decided by: llsym execution of add_pixel / merge / compute_moments as units on fully symbolic property rows (unbounded in
values), of bloboverlaps as a unit on symbolic label images, and of the labelimage call protocol
(connectedpixels -> blobproperties -> bloboverlaps -> compute_moments) on symbolic frames where add_pixel/merge are replaced
by their proved If-specifications; every path (= threshold pattern of all frames) is compared with the voxel-graph oracle.
"""
import sys, os, re, itertools
sys.path.insert(0, os.path.join(os.path.dirname(os.path.abspath(__file__)), "..", "lib"))
import z3, numpy as np
from fractions import Fraction
import common, symcore, harness, llsym, creplay
from common import Check, parse_args
from llsym import Module, Interp, Ptr, mkobj, outobj, symobj, rd, snapshot
from symcore import CTX, EX, to_real

def parse_enum():
    """property indices regenerated from src/blobs.h"""
    txt = open(os.path.join(common.REPO, "src", "blobs.h")).read()
    body = txt[txt.index("s_1 = 0"):]; body = body[:body.index("}")]
    body = re.sub(r"/\*.*?\*/", "", body, flags=re.S)
    names = [x.split("=")[0].strip() for x in body.split(",") if x.strip()]
    return {n: i for i, n in enumerate(names)}
E = parse_enum(); NP = E["NPROPERTY"]
SUMS = ["s_1", "s_I", "s_I2", "s_fI", "s_ffI", "s_sI", "s_ssI", "s_sfI", "s_oI", "s_ooI", "s_soI", "s_foI"]

def zmax(a, b): return z3.If(b > a, b, a)
def zmin(a, b): return z3.If(b < a, b, a)
def R(v): return to_real(v)

def add_spec(b, s, f, I, o):
    b = list(b); s, f, I, o = R(s), R(f), R(I), R(o)
    inc = dict(s_1=z3.RealVal(1), s_I=I, s_I2=I * I, s_fI=f * I, s_ffI=f * f * I, s_sI=s * I, s_ssI=s * s * I, s_sfI=s * f * I, s_oI=o * I, s_ooI=o * o * I, s_soI=s * o * I, s_foI=f * o * I)
    n = list(b)
    for k, v in inc.items(): n[E[k]] = R(b[E[k]]) + v
    gt = I > R(b[E["mx_I"]])
    for k, v in (("mx_I", I), ("mx_I_f", f), ("mx_I_s", s), ("mx_I_o", o)): n[E[k]] = z3.If(gt, v, R(b[E[k]]))
    for k, v in (("bb_mx_f", f), ("bb_mx_s", s), ("bb_mx_o", o)): n[E[k]] = zmax(R(b[E[k]]), v)
    for k, v in (("bb_mn_f", f), ("bb_mn_s", s), ("bb_mn_o", o)): n[E[k]] = zmin(R(b[E[k]]), v)
    return n
def merge_spec(b1, b2):
    n = [R(x) for x in b1]; b2 = [R(x) for x in b2]
    for k in SUMS: n[E[k]] = n[E[k]] + b2[E[k]]
    gt = b2[E["mx_I"]] > R(b1[E["mx_I"]])
    for k in ("mx_I", "mx_I_f", "mx_I_s", "mx_I_o"): n[E[k]] = z3.If(gt, b2[E[k]], R(b1[E[k]]))
    for k in ("bb_mx_f", "bb_mx_s", "bb_mx_o"): n[E[k]] = zmax(R(b1[E[k]]), b2[E[k]])
    for k in ("bb_mn_f", "bb_mn_s", "bb_mn_o"): n[E[k]] = zmin(R(b1[E[k]]), b2[E[k]])
    return n

def conc(x):
    """z3 numerals back to Fractions so that concrete bookkeeping (pixel counts, bounding boxes) stays concrete"""
    if isinstance(x, z3.ExprRef):
        x = z3.simplify(x)
        if z3.is_rational_value(x): return Fraction(x.numerator_as_long(), x.denominator_as_long())
    return x
def row_get(p): return [p.obj.mem[p.off + 8 * k][0] for k in range(NP)]
def row_set(p, vals):
    for k in range(NP): p.obj.mem[p.off + 8 * k] = (vals[k], 8)
def stub_add_pixel(it, a):
    row_set(a[0], [conc(x) for x in add_spec(row_get(a[0]), a[1], a[2], a[3], a[4])]); return None
def stub_merge(it, a):
    row_set(a[0], [conc(x) for x in merge_spec(row_get(a[0]), row_get(a[1]))]); row_set(a[1], [Fraction(0)] * NP)
    if hasattr(it, "merges"): it.merges.append((a[0].obj.name.split("#")[0], a[0].off // (8 * NP), a[1].obj.name.split("#")[0], a[1].off // (8 * NP)))
    return None

_DC = [0]
def stub_moments(it, a):
    """compute_moments replaced by the specification proved in the unit harness: centroids and average as exact quotients;
    the second-moment fields are not part of C12 and become unconstrained values"""
    p, n = a[0], a[1]
    for r in range(n):
        q = Ptr(p.obj, p.off + 8 * NP * r); b = row_get(q)
        if (not isinstance(b[E["s_1"]], z3.ExprRef)) and b[E["s_1"]] == 0: continue
        tc = R(b[E["s_I"]]); nb = list(b)
        nb[E["avg_i"]] = tc / R(b[E["s_1"]]); nb[E["f_raw"]] = R(b[E["s_fI"]]) / tc; nb[E["s_raw"]] = R(b[E["s_sI"]]) / tc; nb[E["o_raw"]] = R(b[E["s_oI"]]) / tc
        for k in ("m_ss", "m_ff", "m_oo", "m_sf", "m_so", "m_fo"):
            _DC[0] += 1; nb[E[k]] = z3.Real("moment_dc_%d" % _DC[0])
        row_set(q, nb)
    return None

# ------------------------------------------------------------------------------------------------ unit harnesses
def units(ck, mod):
    def run_add():
        it = Interp(mod); b = [z3.Real("b%d" % k) for k in range(NP)]; s, f = z3.Int("s"), z3.Int("f"); I, o = z3.Real("I"), z3.Real("o")
        CTX.hyp += [s >= 0, s < 4096, f >= 0, f < 4096]
        ro = mkobj(it, "row", list(b), "double")
        it.call("add_pixel", [Ptr(ro, 0), s, f, I, o])
        out = snapshot(ro, NP); sp = add_spec(b, s, f, I, o)
        goals = [("add_pixel.%s" % n, R(out[k]) == sp[k]) for n, k in E.items() if n != "NPROPERTY"] + [("no-memory-event", z3.BoolVal(not it.events))]
        inp = {"b%d" % k: b[k] for k in range(NP)}; inp.update(s=s, f=f, I=I, o=o)
        return dict(goals=goals, inputs=inp)
    def run_merge():
        it = Interp(mod); b1 = [z3.Real("p%d" % k) for k in range(NP)]; b2 = [z3.Real("q%d" % k) for k in range(NP)]
        r1 = mkobj(it, "row1", list(b1), "double"); r2 = mkobj(it, "row2", list(b2), "double")
        it.call("merge", [Ptr(r1, 0), Ptr(r2, 0)])
        o1 = snapshot(r1, NP); o2 = snapshot(r2, NP); sp = merge_spec(b1, b2)
        goals = [("merge.kept.%s" % n, R(o1[k]) == sp[k]) for n, k in E.items() if n != "NPROPERTY"]
        goals += [("merge.killed row is zero", z3.BoolVal(all((not isinstance(x, z3.ExprRef)) and x == 0 for x in o2))), ("no-memory-event", z3.BoolVal(not it.events))]
        inp = {"p%d" % k: b1[k] for k in range(NP)}; inp.update({"q%d" % k: b2[k] for k in range(NP)})
        return dict(goals=goals, inputs=inp)
    def run_moments():
        it = Interp(mod); b = [z3.Real("b%d" % k) for k in range(NP)]
        CTX.hyp += [b[E["s_I"]] != 0]
        ro = mkobj(it, "row", list(b), "double")
        it.call("compute_moments", [Ptr(ro, 0), 1])
        out = [R(x) for x in snapshot(ro, NP)]
        goals = [("no-memory-event", z3.BoolVal(not it.events))]
        untouched = [n for n in E if n not in ("NPROPERTY", "avg_i", "f_raw", "s_raw", "o_raw", "m_ss", "m_ff", "m_oo", "m_sf", "m_so", "m_fo")]
        for n in untouched: goals.append(("moments leaves %s" % n, out[E[n]] == b[E[n]]))
        empty = b[E["s_1"]] == 0
        tc = b[E["s_I"]]
        goals += [("avg_i = sum I / npix", z3.Implies(z3.Not(empty), out[E["avg_i"]] * b[E["s_1"]] == tc)),
                  ("f_raw = sum fI / sum I", z3.Implies(z3.Not(empty), out[E["f_raw"]] * tc == b[E["s_fI"]])),
                  ("s_raw = sum sI / sum I", z3.Implies(z3.Not(empty), out[E["s_raw"]] * tc == b[E["s_sI"]])),
                  ("o_raw = sum oI / sum I", z3.Implies(z3.Not(empty), out[E["o_raw"]] * tc == b[E["s_oI"]])),
                  ("empty row untouched", z3.Implies(empty, z3.And([out[k] == b[k] for k in range(NP)])))]
        for mm, ss in (("m_ff", ("s_ffI", "s_fI")), ("m_ss", ("s_ssI", "s_sI")), ("m_oo", ("s_ooI", "s_oI"))):
            var1 = b[E[ss[0]]] / tc - (b[E[ss[1]]] / tc) * (b[E[ss[1]]] / tc) + 1
            goals.append(("%s^2 = variance+1 (or 1)" % mm, z3.Implies(z3.Not(empty), z3.And(out[E[mm]] > 0, out[E[mm]] * out[E[mm]] == z3.If(var1 > 0, var1, 1)))))
        return dict(goals=goals, inputs={"b%d" % k: b[k] for k in range(NP)})
    def replay_unit(vals, label):
        import ctypes as C
        L = creplay.lib(); bad = []
        rng = np.random.RandomState(common.SEED + 2)
        def spec_eval(fn, *rows_and_args):
            return fn(*rows_and_args)
        for trial in range(200):
            b1 = rng.randint(-3, 4, NP).astype(float); b2 = rng.randint(-3, 4, NP).astype(float)
            if trial == 0 and "p0" in vals: b1 = np.array([vals["p%d" % k] for k in range(NP)]); b2 = np.array([vals["q%d" % k] for k in range(NP)])
            if label.startswith("merge"):
                a1, a2 = b1.copy(), b2.copy(); L.verif_merge.restype = None; L.verif_merge(creplay.dptr(a1), creplay.dptr(a2))
                want = [float(z3.simplify(x).as_fraction()) for x in merge_spec([z3.RealVal(Fraction(v)) for v in b1], [z3.RealVal(Fraction(v)) for v in b2])]
                if not np.allclose(a1, want) or np.any(a2 != 0): return True, "merge(%s, %s) -> %s, definition %s" % (b1.tolist(), b2.tolist(), a1.tolist(), want)
            elif label.startswith("add_pixel"):
                a1 = b1.copy(); s, f = int(rng.randint(0, 5)), int(rng.randint(0, 5)); I, o = float(rng.randint(-2, 6)), float(rng.randint(-2, 3))
                if trial == 0 and "s" in vals: a1 = np.array([vals["b%d" % k] for k in range(NP)]); b1 = a1.copy(); s, f, I, o = int(vals["s"]), int(vals["f"]), vals["I"], vals["o"]
                L.verif_add_pixel.restype = None; L.verif_add_pixel(creplay.dptr(a1), C.c_int(s), C.c_int(f), C.c_double(I), C.c_double(o))
                want = [float(z3.simplify(x).as_fraction()) for x in add_spec([z3.RealVal(Fraction(v)) for v in b1], s, f, z3.RealVal(Fraction(I)), z3.RealVal(Fraction(o)))]
                if not np.allclose(a1, want): return True, "add_pixel(%s, s=%d, f=%d, I=%r, o=%r) -> %s, definition %s" % (b1.tolist(), s, f, I, o, a1.tolist(), want)
            else:
                a1 = np.abs(b1) + 1.0; L.verif_compute_moments.restype = None; b0 = a1.copy(); L.verif_compute_moments(creplay.dptr(a1), C.c_int(1))
                if abs(a1[E["f_raw"]] * b0[E["s_I"]] - b0[E["s_fI"]]) > 1e-9 or abs(a1[E["s_raw"]] * b0[E["s_I"]] - b0[E["s_sI"]]) > 1e-9 or abs(a1[E["o_raw"]] * b0[E["s_I"]] - b0[E["s_oI"]]) > 1e-9 or abs(a1[E["avg_i"]] * b0[E["s_1"]] - b0[E["s_I"]]) > 1e-9:
                    return True, "compute_moments(%s) -> %s" % (b0.tolist(), a1.tolist())
        return False, "unit agrees with its definition on the confirmation family"
    harness.run_parallel(ck, [("add_pixel", run_add, dict(replay=replay_unit, timeout_ms=30000)), ("merge", run_merge, dict(replay=replay_unit, timeout_ms=30000)),
                              ("compute_moments", run_moments, dict(replay=replay_unit, timeout_ms=30000))])

# ------------------------------------------------------------------------------------------------ protocol (labelimage) on symbolic frames
def voxel_components(mask, nfr, ns, nf):
    vox = [(t, i, j) for t in range(nfr) for i in range(ns) for j in range(nf) if mask[t][i * nf + j]]; vs = set(vox)
    comp = {}; out = []
    for v in vox:
        if v in comp: continue
        st = [v]; comp[v] = len(out); cur = [v]
        while st:
            t, i, j = st.pop()
            nb = [(t, i + di, j + dj) for di in (-1, 0, 1) for dj in (-1, 0, 1) if (di, dj) != (0, 0)] + [(t - 1, i, j), (t + 1, i, j)]
            for w in nb:
                if w in vs and w not in comp: comp[w] = len(out); st.append(w); cur.append(w)
        out.append(cur)
    return out

def make_protocol_run(mod, nfr, ns, nf):
    def run():
        it = Interp(mod); it.call_replace = {"add_pixel": stub_add_pixel, "merge": stub_merge, "compute_moments": stub_moments}
        thr = z3.Real("thr"); CTX.hyp.append(thr >= 0)
        om = [Fraction(v) for v in ([3, 2, 4, Fraction(9, 2), 1, 7][:nfr])]       # distinct, non-monotonic; generality in omega is the units' job
        frames = []; emitted = []; last = None
        def emit(res, n):
            if res is None: return
            it.call("compute_moments", [Ptr(res, 0), n])
            for r in range(n):
                row = [res.mem[8 * (r * NP + c)][0] for c in range(NP)]
                s1 = row[E["s_1"]]
                if isinstance(s1, z3.ExprRef): raise RuntimeError("symbolic pixel count")
                if s1 >= Fraction(1, 10): emitted.append(row)        # outputpeaks skips rows with s_1 < 0.1 (merged away)
        for t in range(nfr):
            data = symobj(it, "f%d_" % t, ns * nf, "float", "const"); frames.append(data)
            blim = outobj(it, "blim%d" % t, ns * nf, "i32", "inout")
            npk = it.call("connectedpixels", [Ptr(data, 0), Ptr(blim, 0), thr, 0, 1, ns, nf])
            res = None
            if npk > 0:
                res = outobj(it, "res%d" % t, npk * NP, "double", "out")
                it.call("blobproperties", [Ptr(data, 0), Ptr(blim, 0), npk, om[t], 0, ns, nf, Ptr(res, 0)])
            if last is None: last = (blim, npk, res); continue
            lbl, lnp, lres = last
            if npk > 0 and lnp > 0:
                npk = it.call("bloboverlaps", [Ptr(lbl, 0), lnp, Ptr(lres, 0), Ptr(blim, 0), npk, Ptr(res, 0), 0, ns, nf])
            if lnp > 0: emit(lres, lnp)
            last = (blim, npk, res if npk > 0 else None)
        lbl, lnp, lres = last
        if lres is not None: emit(lres, lnp)
        return dict(emitted=emitted, frames=[[f.get(k) for k in range(ns * nf)] for f in frames], thr=thr, om=om, events=list(it.events), lastlabels=snapshot(lbl, ns * nf, 4), lastnp=lnp)
    return run

def on_protocol_path(nfr, ns, nf):
    def f(res, pc, hyp, taken, status):
        if res is None: return dict(status=status, bad=["path ended: " + status], nq=0, mask=None)
        m = EX.model([]); F = res["frames"]; thr = res["thr"]; om = res["om"]
        mask = [[bool(z3.is_true(m.eval(F[t][k] > thr, model_completion=True))) for k in range(ns * nf)] for t in range(nfr)]
        comps = voxel_components(mask, nfr, ns, nf); emitted = res["emitted"]; bad = []; nq = 0; unk = []
        base = list(hyp) + list(pc)
        if len(comps) != len(emitted): bad.append("%d peaks written, %d components" % (len(emitted), len(comps)))
        used = set()
        for c in comps:
            Iv = [F[t][i * nf + j] for t, i, j in c]
            want = {"s_1": z3.RealVal(len(c)), "s_I": sum(Iv), "s_fI": sum(I * j for I, (t, i, j) in zip(Iv, c)), "s_sI": sum(I * i for I, (t, i, j) in zip(Iv, c)),
                    "s_oI": sum(I * om[t] for I, (t, i, j) in zip(Iv, c)),
                    "bb_mx_f": z3.RealVal(max(j for t, i, j in c)), "bb_mn_f": z3.RealVal(min(j for t, i, j in c)), "bb_mx_s": z3.RealVal(max(i for t, i, j in c)), "bb_mn_s": z3.RealVal(min(i for t, i, j in c))}
            ts = sorted(set(t for t, i, j in c))
            found = None
            for r, row in enumerate(emitted):
                if r in used or row[E["s_1"]] != len(c): continue
                g = [R(row[E[k]]) == v for k, v in want.items()]
                # centroids as written after compute_moments
                tot = want["s_I"]
                for fld, num in (("f_raw", "s_fI"), ("s_raw", "s_sI"), ("o_raw", "s_oI")):
                    q = R(row[E[fld]])
                    if z3.is_app(q) and q.decl().kind() == z3.Z3_OP_DIV:      # written as the quotient of two sums: compare numerator and denominator (linear) instead of q * tot
                        g += [q.arg(0) == want[num], q.arg(1) == tot, tot > 0]
                    else: g.append(q * tot == want[num])
                mx = R(row[E["mx_I"]])
                g += [z3.And([mx >= I for I in Iv]), z3.Or([z3.And(mx == I, R(row[E["mx_I_f"]]) == j, R(row[E["mx_I_s"]]) == i, R(row[E["mx_I_o"]]) == om[t]) for I, (t, i, j) in zip(Iv, c)])]
                g += [z3.And([R(row[E["bb_mx_o"]]) >= om[t] for t in ts]), z3.Or([R(row[E["bb_mx_o"]]) == om[t] for t in ts]),
                      z3.And([R(row[E["bb_mn_o"]]) <= om[t] for t in ts]), z3.Or([R(row[E["bb_mn_o"]]) == om[t] for t in ts])]
                r_, _ = common.solve(base + [z3.Not(z3.And(g))], 20000); nq += 1
                if r_ == "unknown":            # loaded machine / hard conjunction: decide the goals one by one with a longer limit; anything still unknown is inconclusive, never a mismatch
                    rs = []
                    for gi in g:
                        ri, _ = common.solve(base + [z3.Not(gi)], 120000); nq += 1; rs.append(ri)
                        if ri != "unsat": break
                    r_ = "unsat" if all(x == "unsat" for x in rs) else ("sat" if "sat" in rs else "unknown")
                if r_ == "unknown": unk.append("solver unknown while matching component %s with written row %d" % (c, r))
                if r_ == "unsat": found = r; break
            if found is None and not unk: bad.append("no written peak equals component %s (npix, sums, centroids, max pixel, bounding box)" % (c,))
            elif found is not None: used.add(found)
        if res["events"]: bad.append("memory events %s" % res["events"][:3])
        vals = [[float(m.eval(F[t][k], model_completion=True).as_fraction()) for k in range(ns * nf)] for t in range(nfr)]
        return dict(status=status, bad=bad, unk=unk, nq=nq, mask="|".join("".join("1" if b else "0" for b in mk) for mk in mask), vals=vals, thr=float(m.eval(thr, model_completion=True).as_fraction()),
                    om=[float(o) for o in om], ncomp=len(comps))
    return f

def replay_protocol(vals, thr, om, ns, nf):
    """drive the REAL ImageD11.labelimage class on the model's frames and compare the written 3D peaks with the oracle"""
    import io, ImageD11.labelimage as LI
    # make the compiled module the freshly built kernels?  labelimage uses ImageD11.cImageD11 (the installed extension); to judge the
    # CURRENT sources the same protocol is driven through ctypes on the rebuilt library.
    import ctypes as C
    L = creplay.lib(); nfr = len(vals); frames = [np.array(v, np.float32).reshape(ns, nf) for v in vals]
    L.verif_connectedpixels.restype = C.c_int; L.bloboverlaps.restype = C.c_int
    out = []; last = None
    def emit(res, n):
        L.verif_compute_moments(creplay.dptr(res), C.c_int(n))
        for r in range(n):
            if res[r, E["s_1"]] >= 0.1: out.append(res[r].copy())
    for t in range(nfr):
        bl = np.zeros((ns, nf), np.int32); npk = L.verif_connectedpixels(creplay.fptr(frames[t]), creplay.iptr(bl), C.c_float(thr), 0, 1, ns, nf)
        res = None
        if npk > 0:
            res = np.zeros((npk, NP)); L.blobproperties(creplay.fptr(frames[t]), creplay.iptr(bl), npk, C.c_float(om[t]), 0, ns, nf, creplay.dptr(res))
        if last is None: last = (bl, npk, res); continue
        lbl, lnp, lres = last
        if npk > 0 and lnp > 0: npk = L.bloboverlaps(creplay.iptr(lbl), lnp, creplay.dptr(lres), creplay.iptr(bl), npk, creplay.dptr(res), 0, ns, nf)
        if lnp > 0: emit(lres, lnp)
        last = (bl, npk, res[:npk] if npk > 0 else None)
    if last[2] is not None: emit(last[2], last[1])
    mask = [(f > np.float32(thr)).ravel().tolist() for f in frames]; comps = voxel_components(mask, nfr, ns, nf); bad = []
    if len(out) != len(comps): bad.append("%d peaks written, %d components" % (len(out), len(comps)))
    used = set()
    for c in comps:
        Iv = np.array([frames[t][i, j] for t, i, j in c], float); ok = None
        want = dict(s_1=len(c), s_I=Iv.sum(), s_fI=sum(I * j for I, (t, i, j) in zip(Iv, c)), s_sI=sum(I * i for I, (t, i, j) in zip(Iv, c)), s_oI=sum(I * np.float32(om[t]) for I, (t, i, j) in zip(Iv, c)),
                    mx_I=Iv.max(), bb_mx_f=max(j for t, i, j in c), bb_mn_f=min(j for t, i, j in c), bb_mx_s=max(i for t, i, j in c), bb_mn_s=min(i for t, i, j in c),
                    bb_mx_o=max(np.float32(om[t]) for t, i, j in c), bb_mn_o=min(np.float32(om[t]) for t, i, j in c))
        for r, row in enumerate(out):
            if r in used: continue
            if all(abs(row[E[k]] - v) <= 1e-6 * (1 + abs(v)) for k, v in want.items()): ok = r; break
        if ok is None: bad.append("component %s (expected %s) has no matching written peak" % (c, {k: float(v) for k, v in want.items()}))
        else: used.add(ok)
    return bad

# ------------------------------------------------------------------------------------------------ bloboverlaps as a unit
def growth_strings(n, maxlab):
    """label sequences as a raster labeller produces them: 0 or an existing label or the next new label"""
    out = []
    def rec(pre, mx):
        if len(pre) == n: out.append(pre); return
        for v in range(0, min(mx + 1, maxlab) + 1): rec(pre + [v], max(mx, v))
    rec([], 0); return out

def make_overlap_run(mod, npx, L1, L2):
    def run():
        it = Interp(mod); it.call_replace = {"merge": stub_merge}; it.merges = []
        i1 = EX.pick(list(range(len(L1)))); i2 = EX.pick(list(range(len(L2))))
        b1v, b2v = L1[i1], L2[i2]; n1, n2 = max(b1v), max(b2v)
        if n1 == 0 or n2 == 0: raise symcore.PathEnd("the Python driver calls bloboverlaps only when both frames have peaks")
        b1 = mkobj(it, "b1", list(b1v), "i32", "inout"); b2 = mkobj(it, "b2", list(b2v), "i32", "inout")
        r1 = [[z3.Real("r1_%d_%d" % (p, k)) for k in range(NP)] for p in range(n1)]; r2 = [[z3.Real("r2_%d_%d" % (p, k)) for k in range(NP)] for p in range(n2)]
        res1 = mkobj(it, "res1", [x for row in r1 for x in row], "double", "inout"); res2 = mkobj(it, "res2", [x for row in r2 for x in row], "double", "inout")
        npk = it.call("bloboverlaps", [Ptr(b1, 0), n1, Ptr(res1, 0), Ptr(b2, 0), n2, Ptr(res2, 0), 0, 1, npx])
        return dict(b1v=b1v, b2v=b2v, n1=n1, n2=n2, npk=npk, b2new=snapshot(b2, npx, 4), b1new=snapshot(b1, npx, 4), r1=r1, r2=r2,
                    res1=[[rd(res1, p * NP + k) for k in range(NP)] for p in range(n1)], res2=[[rd(res2, p * NP + k) for k in range(NP)] for p in range(n2)], events=list(it.events))
    return run

def on_overlap_path(npx):
    def f(res, pc, hyp, taken, status):
        if res is None:
            return dict(status=status, bad=([] if "only when both" in status else ["path ended: " + status]), nq=0)
        b1v, b2v, n1, n2 = res["b1v"], res["b2v"], res["n1"], res["n2"]; bad = []; nq = 0
        # classes of the bipartite overlap graph: nodes ("2",p) and ("1",q)
        par = {}
        def find(x):
            while par.setdefault(x, x) != x: x = par[x]
            return x
        for k in range(npx):
            if b1v[k] and b2v[k]: a, b = find(("2", b2v[k])), find(("1", b1v[k])); par[max(a, b)] = min(a, b)
        cls2 = {}
        for p in range(1, n2 + 1): cls2.setdefault(find(("2", p)), []).append(p)
        order = sorted(cls2.values(), key=min); newlab = {p: i + 1 for i, c in enumerate(order) for p in c}
        if res["npk"] != len(order): bad.append("returned %r, %d classes of frame-2 blobs" % (res["npk"], len(order)))
        for k in range(npx):
            want = newlab.get(b2v[k], 0)
            if res["b2new"][k] != want: bad.append("pixel %d relabelled %r, expected %d (b1=%s b2=%s)" % (k, res["b2new"][k], want, b1v, b2v))
        if res["b1new"] != list(b1v): bad.append("previous label image changed")
        # rows: new row i = merge of every frame-2 member and every linked frame-1 row; sums must be plain totals
        for i, c in enumerate(order):
            linked1 = [q for q in range(1, n1 + 1) if find(("1", q)) == find(("2", c[0]))]
            for name in SUMS:
                want = sum(res["r2"][p - 1][E[name]] for p in c) + sum([res["r1"][q - 1][E[name]] for q in linked1])
                got = res["res2"][i][E[name]]
                r_, _ = common.solve(list(hyp) + list(pc) + [R(got) != want], 20000); nq += 1
                if r_ != "unsat": bad.append("row %d field %s is not the total over its members" % (i, name)); break
            allrows = [res["r2"][p - 1] for p in c] + [res["r1"][q - 1] for q in linked1]
            for name, zf in (("bb_mx_f", zmax), ("bb_mx_s", zmax), ("bb_mx_o", zmax), ("bb_mn_f", zmin), ("bb_mn_s", zmin), ("bb_mn_o", zmin), ("mx_I", zmax)):
                want = allrows[0][E[name]]
                for row in allrows[1:]: want = zf(want, row[E[name]])
                r_, _ = common.solve(list(hyp) + list(pc) + [R(res["res2"][i][E[name]]) != want], 20000); nq += 1
                if r_ != "unsat": bad.append("row %d field %s is not the %s over its members" % (i, name, "max" if zf is zmax else "min")); break
        for i in range(len(order), n2):
            if any(isinstance(x, z3.ExprRef) or x != 0 for x in res["res2"][i]): bad.append("row %d beyond the new count is not zero" % i)
        for q in range(1, n1 + 1):
            linked = any(find(("1", q)) == find(("2", p)) for p in range(1, n2 + 1))
            row = res["res1"][q - 1]
            if linked and any(isinstance(x, z3.ExprRef) or x != 0 for x in row): bad.append("linked previous-frame row %d not zeroed (would be written twice)" % q)
            if not linked and not all(isinstance(x, z3.ExprRef) and x.eq(res["r1"][q - 1][k]) for k, x in enumerate(row)): bad.append("unlinked previous-frame row %d modified" % q)
        if res["events"]: bad.append("memory events %s" % res["events"][:3])
        return dict(status=status, bad=bad, nq=nq, b1=list(b1v), b2=list(b2v))
    return f

def replay_overlap(b1v, b2v):
    import ctypes as C
    L = creplay.lib(); npx = len(b1v); n1, n2 = max(b1v), max(b2v); rng = np.random.RandomState(4)
    b1 = np.array(b1v, np.int32); b2 = np.array(b2v, np.int32)
    r1 = rng.randint(1, 9, (n1, NP)).astype(float); r2 = rng.randint(1, 9, (n2, NP)).astype(float); r10, r20 = r1.copy(), r2.copy()
    L.bloboverlaps.restype = C.c_int
    npk = L.bloboverlaps(creplay.iptr(b1), n1, creplay.dptr(r1), creplay.iptr(b2), n2, creplay.dptr(r2), 0, 1, npx)
    par = {}
    def find(x):
        while par.setdefault(x, x) != x: x = par[x]
        return x
    for k in range(npx):
        if b1v[k] and b2v[k]: a, b = find(("2", b2v[k])), find(("1", b1v[k])); par[max(a, b)] = min(a, b)
    cls2 = {}
    for p in range(1, n2 + 1): cls2.setdefault(find(("2", p)), []).append(p)
    order = sorted(cls2.values(), key=min); newlab = {p: i + 1 for i, c in enumerate(order) for p in c}
    bad = []
    if npk != len(order): bad.append("returned %d, expected %d" % (npk, len(order)))
    want = [newlab.get(v, 0) for v in b2v]
    if b2.tolist() != want: bad.append("relabelled frame %s, expected %s" % (b2.tolist(), want))
    for i, c in enumerate(order):
        linked1 = [q for q in range(1, n1 + 1) if find(("1", q)) == find(("2", c[0]))]
        tot = sum(r20[p - 1, E["s_I"]] for p in c) + sum(r10[q - 1, E["s_I"]] for q in linked1)
        if abs(r2[i, E["s_I"]] - tot) > 1e-9: bad.append("row %d intensity %r, expected %r" % (i, r2[i, E["s_I"]], tot))
        mn = min([r20[p - 1, E["bb_mn_o"]] for p in c] + [r10[q - 1, E["bb_mn_o"]] for q in linked1])
        if abs(r2[i, E["bb_mn_o"]] - mn) > 1e-9: bad.append("row %d Min_o %r, expected %r" % (i, r2[i, E["bb_mn_o"]], mn))
    return bad

# ------------------------------------------------------------------------------------------------ main
def main():
    args = parse_args("C12"); ck = Check("C12", args.tier); thorough = args.tier == "thorough"
    symcore.Explorer.incremental = True
    ir = common.build_ir(["connectedpixels", "blobs"]); mod = Module()
    for k in ("connectedpixels", "blobs"): mod.load(ir[k])
    ck.encoded("src/blobs.c:add_pixel", "src/blobs.c:merge", "src/blobs.c:compute_moments", "src/connectedpixels.c:blobproperties", "src/connectedpixels.c:bloboverlaps",
               "src/connectedpixels.c:connectedpixels", "src/blobs.c:dset_*", "ImageD11/labelimage.py:peaksearch/mergelast/outputpeaks/finalise (call protocol mirrored)")
    protos = [(2, 2, 2), (3, 2, 2)] + ([(2, 2, 3), (2, 3, 2), (3, 1, 4)] if thorough else [])      # (4, 2, 2) = 65536 patterns x 4 frames ran beyond an hour
    ck.bound("units add_pixel / merge / compute_moments: all 36 row fields, pixel position and intensity symbolic - unbounded in values",
             "protocol: every threshold pattern of (frames x rows x cols) in %s, symbolic intensities, threshold >= 0 and per-frame omega values" % protos,
             "bloboverlaps unit: 1 x %d pixel label images with every raster-ordered labelling of <= %d previous / <= %d current blobs, all result rows symbolic" % ((5, 3, 4) if thorough else (4, 2, 4)),
             "longer sequences / larger frames are outside the bound; the Python file writing (format strings, spline correction) is outside the claim")
    ck.assume("real-arithmetic model", "threshold >= 0 (max-pixel bookkeeping starts from 0)", "protocol harness: per-frame omega values are the concrete distinct values 3, 2, 4, 9/2 (symbolic omega is covered by the unit harnesses)",
              "in the protocol and bloboverlaps harnesses add_pixel, merge and compute_moments are replaced by their specifications, which the unit harnesses prove equal to the real functions",
              "allocation never fails")
    units(ck, mod)
    # ---- protocol
    for (nfr, ns, nf) in protos:
        name = "protocol[%d frames of %dx%d]" % (nfr, ns, nf)
        outs = harness.par_paths(ck, make_protocol_run(mod, nfr, ns, nf), on_protocol_path(nfr, ns, nf), depth=7)
        ck.path(None, n=len(outs)); common.STATS.queries += sum(o.get("nq", 0) for o in outs)
        masks = set(o["mask"] for o in outs if o.get("mask"))
        for mk in masks: ck.path("%s:%s" % (name, mk), n=0)
        if len(masks) != 2 ** (nfr * ns * nf) or len(outs) != len(masks): ck.inconclusive.append("%s: %d paths, %d masks, expected %d" % (name, len(outs), len(masks), 2 ** (nfr * ns * nf)))
        badp = [o for o in outs if o["bad"]]
        for o in outs:
            for u in o.get("unk", [])[:2]: ck.inconclusive.append("%s %s: %s" % (name, o.get("mask"), u))
        if not badp: ck.ok("%s: written 3D peaks = voxel components with exact pixel count, sums, centroids, max pixel and bounding box on all %d patterns" % (name, len(outs)))
        for o in badp[:3]:
            if o.get("vals") is None: ck.inconclusive.append("%s: %s" % (name, o["bad"])); continue
            rb = replay_protocol(o["vals"], o["thr"], o["om"], ns, nf)
            if rb: ck.violation("%s frames %s: %s" % (name, o["mask"], "; ".join(rb[:2])), "labelimage-protocol:" + rb[0][:40], dict(vals=o["vals"], thr=o["thr"], om=o["om"], ns=ns, nf=nf))
            else: ck.not_reproduced("%s %s: model says %s" % (name, o["mask"], o["bad"][:2]))
        ck.sample(dict(harness=name, paths=len(outs)))
    # ---- bloboverlaps unit
    npx, m1, m2 = (5, 3, 4) if thorough else (4, 2, 4)
    L1 = growth_strings(npx, m1); L2 = growth_strings(npx, m2)
    name = "bloboverlaps-unit[1x%d, <=%d prev, <=%d cur blobs]" % (npx, m1, m2)
    outs = harness.par_paths(ck, make_overlap_run(mod, npx, L1, L2), on_overlap_path(npx), depth=1)
    ck.path(None, n=len(outs)); common.STATS.queries += sum(o.get("nq", 0) for o in outs)
    for n_, o in enumerate(outs): ck.path("%s:%d" % (name, n_), n=0)
    badp = [o for o in outs if o["bad"]]
    if not badp: ck.ok("%s: relabelling, merged rows, zeroed rows and count follow the overlap graph on all %d label-image pairs" % (name, len(outs)))
    for o in badp[:3]:
        if "b1" not in o: ck.inconclusive.append("%s: %s" % (name, o["bad"])); continue
        rb = replay_overlap(o["b1"], o["b2"])
        if rb: ck.violation("%s b1=%s b2=%s: %s" % (name, o["b1"], o["b2"], "; ".join(rb[:2])), "bloboverlaps:" + rb[0].split(",")[0][:40], dict(b1=o["b1"], b2=o["b2"]))
        else: ck.not_reproduced("%s b1=%s b2=%s: model says %s" % (name, o["b1"], o["b2"], o["bad"][:2]))
    ck.finish("add_pixel, merge and compute_moments are proved equal to their definitions on fully symbolic rows; with those definitions substituted, "
              "the labelimage call protocol is executed on symbolic frames and on every threshold pattern the written 3D peaks are matched one-to-one "
              "with the voxel-graph components with exact pixel count, intensity sums, centroids, max pixel and bounding box; bloboverlaps is "
              "additionally checked as a unit on all small label-image pairs with symbolic result rows.")

if __name__ == "__main__":
    common.run_main(main)
