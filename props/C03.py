"""
C03 - reflection lists are complete, sound and correctly grouped into rings.
Decided by: (a) CrossHair (symbolic execution of plain Python ints with z3) on the centring rules reached through the real
`unitcell.outif` table against the International-Tables conditions, for all integer hkl; (b) pysym execution of the real
unitcell.gethkls (sort removed by an AST cut) on symbolic reciprocal metrics: every path lists a concrete hkl set and the
solver is asked whether any hkl of the bounding box that is below the limit and allowed is missing / any listed one is wrong;
(c) pysym execution of the real makerings on an arbitrary ascending list of symbolic d* values.
"""
import sys, os, ast, inspect, textwrap, subprocess, re, itertools, math
sys.path.insert(0, os.path.join(os.path.dirname(os.path.abspath(__file__)), "..", "lib"))
import z3, numpy as np
from fractions import Fraction
import common, symcore, pysym, harness
from common import Check, parse_args
from pysym import Sym, SymBool, T, var
from symcore import CTX, EX

# ------------------------------------------------------------------------------------------------ lazy square roots
class LazySqrt:
    """sqrt(num/den) kept symbolic as its radicand; comparisons are decided on the radicands (monotone on >= 0; num >= 0, den > 0)"""
    def __init__(s, num, den=None): s.num = num if isinstance(num, z3.ExprRef) else symcore.to_real(num); s.den = symcore.to_real(1 if den is None else den)
    def _rad(s, o):
        if isinstance(o, LazySqrt): return o.num, o.den
        if isinstance(o, Sym): raise TypeError("comparison of a square root with a plain symbolic value")
        f = Fraction(o)
        if f < 0: raise TypeError("negative comparison value")
        return z3.RealVal(f * f), z3.RealVal(1)
    def __lt__(s, o): n, d = s._rad(o); return SymBool(s.num * d < n * s.den)
    def __le__(s, o): n, d = s._rad(o); return SymBool(s.num * d <= n * s.den)
    def __gt__(s, o): n, d = s._rad(o); return SymBool(s.num * d > n * s.den)
    def __ge__(s, o): n, d = s._rad(o); return SymBool(s.num * d >= n * s.den)
    def __eq__(s, o):
        if o is None or isinstance(o, (int, float)) and o == 0: return False if o is None else SymBool(s.num == 0)
        n, d = s._rad(o); return SymBool(s.num * d == n * s.den)
    __hash__ = object.__hash__
    def __mul__(s, o):
        if isinstance(o, LazySqrt): return LazySqrt(s.num * o.num, s.den * o.den)
        f = Fraction(o); return LazySqrt(s.num * (f * f), s.den)
    __rmul__ = __mul__
    def __add__(s, o):
        if isinstance(o, (int, float)) and o == 0: return s
        raise TypeError("sum of lazy square roots")
    def floor(s): return LazyFloor(s)
class LazyFloor:
    def __init__(s, r): s.r = r
    def __int__(s):
        # n = floor(sqrt(num/den))  <=>  n^2 den <= num < (n+1)^2 den ; concretised by the explorer (one fork per feasible value)
        n = z3.Int("floor!%d" % len(EX.taken)); EX.assume(z3.And(n >= 0, n * n * s.r.den <= s.r.num, s.r.num < (n + 1) * (n + 1) * s.r.den))
        return EX.choose(n, 0, 64)
    __index__ = __int__
class MathProxy2(pysym.MathProxy):
    def sqrt(s, x): return LazySqrt(T(x)) if isinstance(x, Sym) else math.sqrt(x)
    def floor(s, x): return x.floor() if isinstance(x, LazySqrt) else (pysym.MathProxy.floor(s, x) if isinstance(x, Sym) else math.floor(x))

def without_sort(UC):
    """gethkls of the current source with the final `peaks.sort()` removed (the order is the job of makerings / list.sort)"""
    src = textwrap.dedent(inspect.getsource(UC.unitcell.gethkls)); tree = ast.parse(src); removed = [0]
    class Cut(ast.NodeTransformer):
        def visit_Expr(self, node):
            if isinstance(node.value, ast.Call) and isinstance(node.value.func, ast.Attribute) and node.value.func.attr == "sort": removed[0] += 1; return ast.Pass()
            return node
    tree = Cut().visit(tree); ast.fix_missing_locations(tree)
    ns = dict(vars(UC)); ns["math"] = MathProxy2(); ns["np"] = pysym.NP
    exec(compile(tree, "<gethkls without sort>", "exec"), ns)
    return ns["gethkls"], removed[0]

CENTRING_SPEC = {   # International Tables reflection conditions, written independently of unitcell.py: True = systematically absent
    "P": lambda h, k, l: False,
    "A": lambda h, k, l: (k + l) % 2 == 1,
    "B": lambda h, k, l: (h + l) % 2 == 1,
    "C": lambda h, k, l: (h + k) % 2 == 1,
    "I": lambda h, k, l: (h + k + l) % 2 == 1,
    "F": lambda h, k, l: not (h % 2 == k % 2 == l % 2),
    "R": lambda h, k, l: (-h + k + l) % 3 != 0}

def crosshair_rules(ck, thorough):
    d = common.scratch("verif_c03_"); p = os.path.join(d, "centring_contracts.py")
    spec_src = {"P": "False", "A": "(k + l) % 2 == 1", "B": "(h + l) % 2 == 1", "C": "(h + k) % 2 == 1", "I": "(h + k + l) % 2 == 1", "F": "not (h % 2 == k % 2 == l % 2)", "R": "(-h + k + l) % 3 != 0"}
    lines = ["import sys", "sys.path.insert(0, %r)" % common.REPO, "from ImageD11.unitcell import outif", ""]
    for s, cond in spec_src.items():
        lines += ["def rule_%s(h: int, k: int, l: int) -> bool:" % s, '    """', "    post: __return__ == (%s)" % cond, '    """', "    return bool(outif[%r](h, k, l))" % s, ""]
        lines += ["def reach_%s(h: int, k: int, l: int) -> bool:" % s, '    """', "    post: False", '    """', "    return bool(outif[%r](h, k, l))" % s, ""]
    open(p, "w").write("\n".join(lines))
    tmo = 60 if thorough else 25
    env = dict(os.environ); env["PYTHONPATH"] = common.REPO + ":" + env.get("PYTHONPATH", "")
    r = subprocess.run([sys.executable, "-m", "crosshair", "check", "--report_all", "--per_condition_timeout", str(tmo), p], capture_output=True, text=True, env=env, cwd=d)
    out = r.stdout + r.stderr
    ck.extra["crosshair_output"] = out[-3000:]
    verdict = {}
    for line in out.split("\n"):
        m = re.match(r".*centring_contracts\.py:(\d+): (\w+): (.*)", line)
        if not m: continue
        ln = int(m.group(1)); kind = m.group(2); msg = m.group(3)
        # map the line to the function it belongs to
        fn = None
        for i in range(ln - 1, -1, -1):
            mm = re.match(r"def (\w+)\(", lines[i]) if i < len(lines) else None
            if mm: fn = mm.group(1); break
        verdict.setdefault(fn, []).append((kind, msg))
    for s in spec_src:
        ck.path("centring:%s" % s); common.STATS.queries += 1
        reach = verdict.get("reach_%s" % s, []); v = verdict.get("rule_%s" % s, [])
        if not any("false when calling" in m_ or kind == "error" for kind, m_ in reach): ck.vacuity_fail("CrossHair reachability twin for rule %s did not fail (%s)" % (s, reach)); continue
        ck.vacuity_ok("centring rule %s reachable" % s)
        if any("Confirmed over all paths" in m_ for kind, m_ in v): ck.ok("outif[%r] = International-Tables reflection condition for all integer hkl (CrossHair: confirmed over all paths)" % s); continue
        cex = [m_ for kind, m_ in v if "false when calling" in m_]
        if cex:
            mm = re.search(r"rule_\w\((?:h *= *)?(-?\d+), *(?:k *= *)?(-?\d+), *(?:l *= *)?(-?\d+)\)", cex[0])
            if mm:
                h, k, l = map(int, mm.groups())
                import ImageD11.unitcell as UC
                got = bool(UC.outif[s](h, k, l)); want = bool(CENTRING_SPEC[s](h, k, l))
                if got != want:
                    ck.violation("centring %s: hkl (%d,%d,%d) is reported %s but the International-Tables condition says %s" % (s, h, k, l, "absent" if got else "allowed", "absent" if want else "allowed"),
                                 "unitcell.py:outif[%s]:wrong-rule" % s, dict(symmetry=s, hkl=[h, k, l])); continue
            ck.not_reproduced("CrossHair counterexample for rule %s: %s" % (s, cex[0]))
        else: ck.undecided("centring rule %s" % s, "CrossHair: %s" % (v or "no verdict"))

# ------------------------------------------------------------------------------------------------ gethkls on symbolic metrics
def family(UC, fam, sym, H):
    """unitcell object of a symbolic family (constructed without running __init__: only the attributes gethkls / ds read)"""
    x, y, z, w, D = [z3.Real(n) for n in ("gi00", "gi11", "gi22", "gi02", "D")]
    uc = object.__new__(UC.unitcell)
    CTX.hyp += [x > 0, y > 0, z > 0, D > 0]
    if fam == "orthogonal":
        gi = [[x, 0, 0], [0, y, 0], [0, 0, z]]
        lp = [LazySqrt(z3.RealVal(1), x), LazySqrt(z3.RealVal(1), y), LazySqrt(z3.RealVal(1), z), 90.0, 90.0, 90.0]
        # every reflection below the limit lies in the box |h|,|k|,|l| <= H
        CTX.hyp += [x * (H + 1) ** 2 >= D, y * (H + 1) ** 2 >= D, z * (H + 1) ** 2 >= D]
    else:                                         # monoclinic, unique axis b: gi = [[x,0,w],[0,y,0],[w,0,z]], direct a^2 = z/(xz-w^2), c^2 = x/(xz-w^2)
        det = x * z - w * w
        gi = [[x, 0, w], [0, y, 0], [w, 0, z]]
        lp = [LazySqrt(z, det), LazySqrt(z3.RealVal(1), y), LazySqrt(x, det), 90.0, 100.0, 90.0]
        CTX.hyp += [det > 0, y * (H + 1) ** 2 >= D, det * (H + 1) ** 2 >= D * z, det * (H + 1) ** 2 >= D * x]      # h^2/a^2 <= q: |h| < dsmax*a <= H+1
    uc.gi = np.array([[Sym(symcore.to_real(v)) for v in row] for row in gi], dtype=object)
    uc.lattice_parameters = lp; uc.symmetry = sym; uc.absent = UC.outif[sym]; uc.peaks = None; uc.limit = 0
    uc.ds = lambda h, uc=uc: LazySqrt(T(np.dot(h, np.dot(uc.gi, h))))
    return uc, LazySqrt(D), dict(gi00=x, gi11=y, gi22=z, gi02=w, D=D), gi

def make_hkl_run(UC, fam, sym, H, gethkls):
    def run():
        uc, dsmax, inputs, gi = family(UC, fam, sym, H)
        peaks = gethkls(uc, dsmax)
        return dict(listed=[(p[1], p[0]) for p in peaks], inputs=inputs, gi=gi)
    return run

def on_hkl_path(fam, sym, H):
    def f(res, pc, hyp, taken, status):
        if res is None: return dict(bad=["path ended: " + status], nq=0)
        base = list(hyp) + list(pc); gi = res["gi"]; D = res["inputs"]["D"]; bad = []; nq = 0; cex = None
        q = lambda h: sum(symcore.to_real(gi[i][j]) * h[i] * h[j] for i in range(3) for j in range(3))
        listed = [tuple(int(v) for v in hkl) for hkl, ds in res["listed"]]
        if len(set(listed)) != len(listed): bad.append("a reflection is listed twice: %s" % [h for h in listed if listed.count(h) > 1][:2])
        if (0, 0, 0) in listed: bad.append("(0,0,0) listed")
        for hkl, ds in res["listed"]:
            hk = tuple(int(v) for v in hkl)
            if CENTRING_SPEC[sym](*hk): bad.append("listed %s is systematically absent for %s" % (hk, sym))
            if not isinstance(ds, LazySqrt): bad.append("d* of %s is %r" % (hk, ds)); continue
            r, m = common.solve(base + [z3.Not(z3.And(ds.num == q(hk) * ds.den, q(hk) < D))], 20000, want_model=True); nq += 1
            if r != "unsat": bad.append("listed %s: d* is not |B.hkl| below the limit (%s)" % (hk, r)); cex = cex or m
        box = [h for h in itertools.product(range(-H, H + 1), repeat=3) if h != (0, 0, 0)]
        for hk in box:
            if hk in listed or CENTRING_SPEC[sym](*hk): continue
            r, m = common.solve(base + [q(hk) < D], 20000, want_model=True); nq += 1
            if r != "unsat":
                bad.append("allowed reflection %s can be below the limit but is not listed (%s)" % (hk, r)); cex = cex or m
                if len(bad) > 3: break
        out = dict(bad=bad, nq=nq, n=len(listed), key=str(sorted(listed)))
        if bad and cex is not None:
            out["vals"] = {k: pysym.model_float(cex, v) for k, v in res["inputs"].items()}
        return out
    return f

def replay_hkl(vals, fam, sym):
    """metric -> cell parameters -> the real unitcell(cell, sym).gethkls(dsmax) against brute force in a wide box"""
    import ImageD11.unitcell as UC
    gi = np.array([[vals["gi00"], 0, vals["gi02"] if fam != "orthogonal" else 0], [0, vals["gi11"], 0], [vals["gi02"] if fam != "orthogonal" else 0, 0, vals["gi22"]]], float)
    g = np.linalg.inv(gi); a, b, c = np.sqrt(np.diag(g)); al = np.degrees(np.arccos(g[1, 2] / b / c)); be = np.degrees(np.arccos(g[0, 2] / a / c)); ga = np.degrees(np.arccos(g[0, 1] / a / b))
    cell = [float(a), float(b), float(c), float(al), float(be), float(ga)]
    for shrink in (1.0, 1 - 1e-9, 1 - 1e-6):                       # stay off the exact boundary d* = limit (floating point)
        dsmax = math.sqrt(vals["D"]) * shrink
        u = UC.unitcell(cell, sym); got = set(tuple(p[1]) for p in u.gethkls(dsmax)); glist = [tuple(p[1]) for p in u.peaks]
        want = set()
        for h in itertools.product(range(-6, 7), repeat=3):
            if h == (0, 0, 0) or CENTRING_SPEC[sym](*h): continue
            d = math.sqrt(np.dot(h, np.dot(u.gi, h)))
            if d < dsmax * (1 - 1e-9): want.add(h)
        miss = sorted(want - got); extra = sorted(h for h in got if CENTRING_SPEC[sym](*h)); dup = len(glist) != len(set(glist))
        if miss or extra or dup:
            return "unitcell(%s, %r).gethkls(%r): missing %s%s%s" % ([round(v, 6) for v in cell], sym, dsmax, miss[:4], (" forbidden listed %s" % extra[:3]) if extra else "", " duplicates" if dup else "")
    return None

# ------------------------------------------------------------------------------------------------ call histories (cache state)
class _FloorInt:
    def __init__(s, t): s.t = t
    def __int__(s): return EX.choose(z3.ToInt(s.t), 0, 64)
    __index__ = __int__
class MathProxy3(pysym.MathProxy):
    def floor(s, x): return _FloorInt(T(x)) if isinstance(x, Sym) else math.floor(x)
def _snapshot(kind, uc, ret):
    if kind == "g": return [(float(p[0]), tuple(int(v) for v in p[1])) for p in ret]
    return [(float(r), [tuple(int(v) for v in h) for h in uc.ringhkls[r]]) for r in uc.ringds]
def make_history_run(UC, cell, sym, top):
    def run():
        ref = UC.unitcell(cell, sym); dmin = min(ref.ds(h) for h in ((1, 0, 0), (0, 1, 0), (0, 0, 1), (1, 1, 1), (2, 0, 0), (0, 2, 0), (0, 0, 2)) if not ref.absent(*h))
        kinds = [EX.pick(["g", "m"]) for _ in range(3)]
        lim = [z3.Real("lim%d" % i) for i in range(3)]
        for x in lim: CTX.hyp += [x > Fraction(dmin) + Fraction(1, 500), x < Fraction(top)]          # at least one reflection below every limit (makerings reads peaks[0])
        def call(uc, kind, x):
            if kind == "g": return uc.gethkls(Sym(x))
            uc.makerings(Sym(x), 0.001); return None
        with pysym.patched((UC, "math", MathProxy3())):
            uc = UC.unitcell(cell, sym)
            for i in range(2): call(uc, kinds[i], lim[i])
            got = _snapshot(kinds[2], uc, call(uc, kinds[2], lim[2]))
            fresh = UC.unitcell(cell, sym); want = _snapshot(kinds[2], fresh, call(fresh, kinds[2], lim[2]))
        return dict(kinds=kinds, lim=lim, got=got, want=want)
    return run
def on_history_path(res, pc, hyp, taken, status):
    if res is None: return dict(bad=["path ended: " + status], key=str(taken))
    bad = []
    if res["got"] != res["want"]:
        bad.append("%s(lim0), %s(lim1), then %s(lim2) gives %d entries %s..., a fresh object gives %d entries" % (res["kinds"][0], res["kinds"][1], res["kinds"][2], len(res["got"]), res["got"][-1:], len(res["want"])))
    out = dict(bad=bad, key="%s|%s" % ("".join(res["kinds"]), taken), kinds=res["kinds"])
    if bad:
        m = EX.model([])
        if m is not None: out["vals"] = [pysym.model_float(m, x) for x in res["lim"]]
    return out
def replay_history(UC, cell, sym, kinds, lims):
    def call(uc, kind, x):
        if kind == "g": return uc.gethkls(x)
        uc.makerings(x, 0.001); return None
    uc = UC.unitcell(cell, sym)
    for i in range(2): call(uc, kinds[i], lims[i])
    got = _snapshot(kinds[2], uc, call(uc, kinds[2], lims[2])); fresh = UC.unitcell(cell, sym); want = _snapshot(kinds[2], fresh, call(fresh, kinds[2], lims[2]))
    if got != want:
        names = {"g": "gethkls", "m": "makerings"}
        return "unitcell(%s, %r): %s(%r), %s(%r), then %s(%r) gives %d %s (last %s); a fresh object gives %d (last %s)" % (cell, sym, names[kinds[0]], lims[0], names[kinds[1]], lims[1], names[kinds[2]], lims[2],
                len(got), "reflections" if kinds[2] == "g" else "rings", got[-1:], len(want), want[-1:])
    return None

# ------------------------------------------------------------------------------------------------ makerings
class HSym(Sym):
    __hash__ = object.__hash__
def make_rings_run(UC, n):
    def run():
        uc = object.__new__(UC.unitcell); tol = HSym(z3.Real("tol")); CTX.hyp.append(tol.t > 0)
        d = [HSym(z3.Real("d%d" % i)) for i in range(n)]
        CTX.hyp += [d[0].t > 0] + [d[i].t >= d[i - 1].t for i in range(1, n)]
        peaks = [[d[i], (i + 1, 0, 0)] for i in range(n)]
        uc.gethkls = lambda lim: peaks
        uc.ringtol = 0.001
        uc.makerings(HSym(z3.Real("limit")), tol)
        rings = [(r, list(uc.ringhkls[r])) for r in uc.ringds]
        return dict(d=d, tol=tol, rings=rings, ringtol=uc.ringtol)
    return run
def on_rings_path(n):
    def f(res, pc, hyp, taken, status):
        if res is None: return dict(bad=["path ended: " + status], nq=0)
        base = list(hyp) + list(pc); d = res["d"]; tol = res["tol"].t; bad = []; nq = 0; cex = None
        flat = [h for r, hk in res["rings"] for h in hk]
        if flat != [(i + 1, 0, 0) for i in range(n)]: bad.append("rings do not partition the list in order: %s" % res["rings"])
        goals = []
        idx = 0
        for rn, (r, hk) in enumerate(res["rings"]):
            members = list(range(idx, idx + len(hk))); idx += len(hk)
            goals.append(("ring %d is labelled by its first member" % rn, r.t == d[members[0]].t))
            for a, b in zip(members, members[1:]): goals.append(("neighbours %d,%d in ring %d closer than tol" % (a, b, rn), d[b].t - d[a].t < tol))
            for a in members[1:]: goals.append(("member %d within tol of its ring" % a, d[a].t - d[members[0]].t < tol))
            if rn + 1 < len(res["rings"]): goals.append(("next ring starts at least tol after ring %d" % rn, d[idx].t - d[members[0]].t >= tol))
        for nm, g in goals:
            r_, m = common.solve(base + [z3.Not(g)], 20000, want_model=True); nq += 1
            if r_ != "unsat": bad.append("%s fails (%s)" % (nm, r_)); cex = cex or m
        if not (isinstance(res["ringtol"], Sym) and res["ringtol"].t.eq(tol)): bad.append("ringtol not recorded")
        out = dict(bad=bad, nq=nq, key=str([len(hk) for r, hk in res["rings"]]))
        if bad and cex is not None: out["vals"] = dict(d=[pysym.model_float(cex, x.t) for x in d], tol=pysym.model_float(cex, tol))
        return out
    return f
def replay_rings(vals):
    import ImageD11.unitcell as UC
    uc = UC.unitcell([4, 4, 4, 90, 90, 90], "P"); d = vals["d"]; tol = vals["tol"]
    uc.gethkls = lambda lim: [[d[i], (i + 1, 0, 0)] for i in range(len(d))]
    uc.makerings(10.0, tol)
    idx = 0
    for r in uc.ringds:
        hk = uc.ringhkls[r]; mem = list(range(idx, idx + len(hk))); idx += len(hk)
        for a, b in zip(mem, mem[1:]):
            if not d[b] - d[a] < tol: return "makerings(tol=%r) on d*=%s puts members %r and %r (difference %r >= tol) into one ring" % (tol, d, d[a], d[b], d[b] - d[a])
        if idx < len(d) and not d[idx] - d[mem[0]] >= tol: return "makerings(tol=%r) on d*=%s starts a new ring at %r although it is within tol of the ring at %r" % (tol, d, d[idx], d[mem[0]])
    return None

def main():
    args = parse_args("C03"); ck = Check("C03", args.tier); thorough = args.tier == "thorough"
    symcore.Explorer.incremental = False
    import ImageD11.unitcell as UC
    ck.encoded("ImageD11/unitcell.py:P/A/B/C/I/F/R and the outif table (CrossHair)", "ImageD11/unitcell.py:unitcell.gethkls (pysym, final sort cut away)", "ImageD11/unitcell.py:unitcell.ds", "ImageD11/unitcell.py:unitcell.makerings", "ImageD11/unitcell.py:unitcell.gethkls cache (limit, peaks) from an arbitrary cached state")
    ck.bound("centring rules: all integers h,k,l (unbounded)", "gethkls: all cells of the orthogonal family (reciprocal metric diag(x,y,z)) with every d* limit such that all reflections below the limit have |h|,|k|,|l| <= 1, centrings P, I, F, and the monoclinic-b family (P); thorough: index box 2 for P, I, F, box 1 for A, B, C, R, and the monoclinic-b family (P, C; box 1; a stretch obligation if the solver gives up)",
             "makerings: every ascending list of <= %d symbolic d* values and every tolerance > 0" % (5 if thorough else 4),
             "general triclinic metrics and larger index boxes are outside the bound")
    ck.assume("real-arithmetic model; math.sqrt(q) compared through its radicand (monotonicity on q >= 0)", "the final peaks.sort() is cut away by an AST transformation of the current source (sorting is list.sort)",
              "unitcell objects of a family are built without __init__ (only gi, lattice_parameters, absent are read by gethkls); the link direct cell <-> reciprocal metric is supplied exactly for the two families")
    crosshair_rules(ck, thorough)
    gethkls, ncut = without_sort(UC)
    if ncut != 1: ck.inconclusive.append("expected exactly one .sort() call in gethkls, found %d" % ncut)
    fams = [("orthogonal", s_, 1) for s_ in ("P", "I", "F")] + [("monoclinic-b", "P", 1)] if not thorough else \
           [("orthogonal", s_, 2) for s_ in ("P", "I", "F")] + [("orthogonal", s_, 1) for s_ in ("A", "B", "C", "R")] + [("monoclinic-b", "P", 1), ("monoclinic-b", "C", 1)]
    for fam, sym, H in fams:
        name = "gethkls[%s,%s,box %d]" % (fam, sym, H)
        try:
            outs = harness.par_paths(ck, make_hkl_run(UC, fam, sym, H, gethkls), on_hkl_path(fam, sym, H), depth=5, timeout_ms=30000)
        except symcore.Inconclusive as e:
            ck.undecided(name, str(e)); continue
        ck.path(None, n=len(outs)); common.STATS.queries += sum(o.get("nq", 0) for o in outs)
        for o in outs: ck.path("%s:%s" % (name, o.get("key")), n=0)
        badp = [o for o in outs if o["bad"]]
        if fam != "orthogonal" and any("inconclusive" in str(o["bad"]) for o in badp):
            # non-linear family (a^2 = z/(xz-w^2)): z3 may give up on a feasibility query; reported as an undecided stretch obligation
            ck.undecided(name, "solver unknown on %d of %d paths" % (len([o for o in badp if "inconclusive" in str(o["bad"])]), len(outs)), stretch=True); continue
        if not badp: ck.ok("%s: on all %d paths the list is exactly {allowed hkl with |B.hkl| < limit}, once each" % (name, len(outs))); continue
        done = False
        for o in badp[:6]:
            if "vals" not in o: continue
            msg = replay_hkl(o["vals"], fam, sym)
            if msg:
                ck.violation(msg, "unitcell.py:gethkls:incomplete" if "missing" in msg and "missing []" not in msg else "unitcell.py:gethkls:unsound", dict(vals=o["vals"], family=fam, symmetry=sym)); done = True; break
        if not done: ck.not_reproduced("%s: model says %s" % (name, badp[0]["bad"][:2]))
    # ---- the (limit, peaks) cache of gethkls: from an ARBITRARY cached state the cached list may only be handed back for the same limit,
    # and a recomputation must leave the cache describing the list it returned (inductive step over call histories)
    SENT = [["cached-list-sentinel"]]
    def cache_run():
        uc, dsmax, inputs, gi = family(UC, "orthogonal", "P", 0)            # box 0: the walk itself is trivial here (it is covered above)
        L = z3.Real("L"); CTX.hyp.append(L > 0); uc.limit = LazySqrt(L); uc.peaks = SENT
        try: out = gethkls(uc, dsmax)
        except (ValueError, TypeError):          # the code looked INSIDE the cached list (opaque here): what it does with it is judged by the call-history harness below
            return dict(goals=[], inputs=dict(inputs, L=L))
        D = inputs["D"]
        if out is SENT: goals = [("gethkls hands back the cached list only when asked for the cached limit", D == L)]
        else: goals = [("after a recomputation the cache holds the returned list and its limit", z3.BoolVal(uc.peaks is out and uc.limit is dsmax))]
        return dict(goals=goals, inputs=dict(inputs, L=L))
    def replay_cache(vals, label):
        a, b, c = [1.0 / math.sqrt(vals[k]) for k in ("gi00", "gi11", "gi22")]
        for lim1, lim2 in ((math.sqrt(vals["L"]), math.sqrt(vals["D"])), (3.1 / min(a, b, c), 1.2 / min(a, b, c)), (1.2 / min(a, b, c), 3.1 / min(a, b, c))):
            u = UC.unitcell([a, b, c, 90, 90, 90], "P"); u.gethkls(lim1); got = [tuple(p[1]) for p in u.gethkls(lim2)]
            want = [tuple(p[1]) for p in UC.unitcell([a, b, c, 90, 90, 90], "P").gethkls(lim2)]
            if sorted(got) != sorted(want): return True, "unitcell(%s).gethkls(%r) after gethkls(%r) returns %d reflections, a fresh object returns %d" % ([a, b, c, 90, 90, 90], lim2, lim1, len(got), len(want))
        return False, "second call equals a fresh object's list"
    harness.run_identities(ck, "gethkls-cache", cache_run, replay_cache, 20000, keyfn=lambda n, l: "unitcell.py:gethkls:stale-cache")
    # ---- call histories on one object: (limit, peaks) are written by gethkls AND by makerings; after any two calls a third call must answer like a fresh object.
    # Concrete cell, SYMBOLIC limits (every real limit in the range is covered by the solver-decided forks of the real code).
    hist_cells = [([1.0, 1.0, 1.0, 90, 90, 90], "P", 1.8)] + ([([1.0, 1.25, 1.6, 90, 90, 90], "P", 1.7), ([1.0, 1.0, 1.0, 90, 90, 90], "F", 2.1)] if thorough else [])
    for cell, sym, top in hist_cells:
        name = "call-histories[cell %s %s, limits in (min d*, %g)]" % (cell, sym, top)
        symcore.Explorer.incremental = True
        try: outs = harness.par_paths(ck, make_history_run(UC, cell, sym, top), on_history_path, depth=4, timeout_ms=20000)
        finally: symcore.Explorer.incremental = False
        ck.path(None, n=len(outs))
        for o in outs: ck.path("%s:%s" % (name, o.get("key")), n=0)
        badp = [o for o in outs if o["bad"]]
        if not badp: ck.ok("%s: after any two calls of gethkls / makerings the third call returns what a fresh object returns, on all %d paths" % (name, len(outs))); continue
        done = False
        for o in badp[:8]:
            if "vals" not in o:
                ck.inconclusive.append("%s: %s" % (name, o["bad"][:2])); done = True; continue
            msg = replay_history(UC, cell, sym, o["kinds"], o["vals"])
            if msg: ck.violation(msg, "unitcell.py:gethkls/makerings:history", dict(cell=cell, symmetry=sym, kinds=o["kinds"], limits=o["vals"])); done = True; break
        if not done: ck.not_reproduced("%s: model says %s" % (name, badp[0]["bad"][:2]))
    for n in range(1, (5 if thorough else 4) + 1):
        name = "makerings[n=%d]" % n
        outs = harness.par_paths(ck, make_rings_run(UC, n), on_rings_path(n), depth=3)
        ck.path(None, n=len(outs)); common.STATS.queries += sum(o.get("nq", 0) for o in outs)
        for o in outs: ck.path("%s:%s" % (name, o.get("key")), n=0)
        badp = [o for o in outs if o["bad"]]
        if not badp: ck.ok("%s: contiguous ascending rings, members within tol, next ring at least tol away, on all %d groupings" % (name, len(outs))); continue
        done = False
        for o in badp[:4]:
            if "vals" not in o: continue
            msg = replay_rings(o["vals"])
            if msg: ck.violation(msg, "unitcell.py:makerings:grouping", dict(vals=o["vals"])); done = True; break
        if not done: ck.not_reproduced("%s: model says %s" % (name, badp[0]["bad"][:2]))
    ck.finish("Centring rules: CrossHair confirms each rule reached through the real outif table against the International-Tables condition for all integers. "
              "gethkls: the real method is executed on symbolic reciprocal metrics of two cell families; every path yields a concrete list and z3 is asked "
              "for a missing allowed reflection of the bounding box / a listed reflection that is forbidden, not below the limit or duplicated. makerings: "
              "executed on an arbitrary ascending list of symbolic d* values; the grouping conditions are z3 validity queries per path.")

if __name__ == "__main__":
    common.run_main(main)
