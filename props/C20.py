"""
C20 - compiled kernels never touch memory outside their arguments (and define their outputs).
Decided by: llsym's checked memory model over clang IR of every exported kernel driven with exactly-sized objects as
src/_cImageD11.pyf declares them, symbolic contents inside the documented preconditions, at boundary shapes.  Events:
out-of-bounds, use-after-free, double free, negative allocation, signed overflow, division by zero, use of an uninitialised
value, write to an intent(in) array, output cell left undefined.  A model event is replayed on the real sources with a
generated C driver under clang -fsanitize=address,undefined (valgrind for uninitialised use) before it is reported.
"""
import sys, os, re, subprocess, itertools, json
sys.path.insert(0, os.path.join(os.path.dirname(os.path.abspath(__file__)), "..", "lib"))
import z3, numpy as np
from fractions import Fraction
import common, symcore, harness, llsym
from common import Check, parse_args
from llsym import Module, Interp, Ptr, UNINIT
from symcore import CTX, EX

CT = {"float": ("float", 4), "double": ("double", 8), "i32": ("int32_t", 4), "u32": ("uint32_t", 4), "i8": ("int8_t", 1), "u8": ("uint8_t", 1),
      "u16": ("uint16_t", 2), "i16": ("int16_t", 2), "i64": ("int64_t", 8)}
LL = {"float": "float", "double": "double", "i32": "i32", "u32": "i32", "i8": "i8", "u8": "i8", "u16": "i16", "i16": "i16", "i64": "i64"}

class Arr:
    """array argument: role in {'in' (read only, symbolic/given content), 'inout' (initialised, may be written), 'out' (uninitialised on
    entry, must be fully written), 'work' (uninitialised scratch, no promise)}; content: None (free symbolic in the type's range),
    ('range', lo, hi), ('vals', [...]), ('sym', [z3 terms])"""
    def __init__(s, name, ty, count, role="in", content=None, must_write=None):
        s.name, s.ty, s.count, s.role, s.content = name, ty, count, role, content
        s.must_write = must_write      # number of leading cells that must be defined on return (default: all for 'out')
class Sc:
    def __init__(s, ty, v): s.ty, s.v = ty, v

def type_range(ty):
    return {"i32": (-2 ** 31, 2 ** 31 - 1), "u32": (-2 ** 31, 2 ** 31 - 1), "i8": (-128, 127), "u8": (-128, 127), "u16": (-32768, 32767), "i16": (-32768, 32767), "i64": (-2 ** 63, 2 ** 63 - 1)}.get(ty)

def build_args(it, spec):
    """materialise the argument objects of one call; returns (llsym args, bookkeeping)"""
    args = []; objs = []
    for a in spec:
        if isinstance(a, Sc): args.append(a.v); continue
        es = CT[a.ty][1]; isf = a.ty in ("float", "double")
        kind = {"in": "const", "inout": "inout", "out": "out", "work": "inout"}[a.role]
        o = it.newobj(a.name, es * a.count, None, kind); o.esize = es; cells = []
        if a.role in ("in", "inout"):
            for k in range(a.count):
                if a.content is None or a.content[0] == "range":
                    v = z3.Real("%s_%d" % (a.name, k)) if isf else z3.Int("%s_%d" % (a.name, k))
                    lo, hi = (a.content[1], a.content[2]) if a.content else ((None, None) if isf else type_range(a.ty))
                    if lo is not None: CTX.hyp += [v >= lo, v <= hi]
                elif a.content[0] == "fp32":       # IEEE mode: a finite float32
                    v = z3.FP("%s_%d" % (a.name, k), z3.Float32()); CTX.hyp += [z3.Not(z3.fpIsNaN(v)), z3.Not(z3.fpIsInf(v))]
                elif a.content[0] == "vals": v = a.content[1][k]; v = Fraction(v) if isf else v
                else: v = a.content[1][k]
                o.mem[es * k] = (v, es); cells.append(v)
        objs.append((a, o, cells)); args.append(Ptr(o, 0))
    return args, objs

def unsigned_view(v, ty):
    bits = {"u8": 8, "u16": 16, "u32": 32}.get(ty)
    if bits is None: return v
    return z3.If(v < 0, v + (1 << bits), v) if isinstance(v, z3.ExprRef) else v % (1 << bits)

# ------------------------------------------------------------------------------------------------ kernel table
def kernels(thorough):
    R = z3.Real; I = z3.Int
    K = []
    def add(fn, src, variants, mul="nra", note=None): K.append(dict(fn=fn, src=src, variants=variants, mul=mul, note=note))
    img_shapes = [(2, 2), (2, 3), (3, 2)] + ([(3, 3)] if thorough else [])
    # ---- connectedpixels.c
    add("connectedpixels", "connectedpixels", [("%dx%d con%d" % (ns, nf, c), (lambda ns=ns, nf=nf, c=c: [Arr("data", "float", ns * nf), Arr("labels", "i32", ns * nf, "out"), Sc("float", R("thr")), Sc("int", 0), Sc("int", c), Sc("int", ns), Sc("int", nf)]))
                                              for ns, nf in img_shapes for c in (1, 0)])
    add("blobproperties", "connectedpixels", [("%dx%d npk=%d" % (ns, nf, npk), (lambda ns=ns, nf=nf, npk=npk: [Arr("data", "float", ns * nf, "in", ("vals", [3, 1, 4, 2][:ns * nf])), Arr("labels", "i32", ns * nf, "in", ("range", -1, npk + 1)), Sc("int", npk), Sc("float", Fraction(1, 2)), Sc("int", 0), Sc("int", ns), Sc("int", nf), Arr("res", "double", 36 * npk, "out")]))
                                             for ns, nf in [(2, 2)] for npk in (0, 1, 2)])
    add("bloboverlaps", "connectedpixels", [("1x%d n1=%d n2=%d" % (npx, n1, n2), (lambda npx=npx, n1=n1, n2=n2: [Arr("b1", "i32", npx, "inout", ("range", 0, n1)), Sc("int", n1), Arr("res1", "double", 36 * n1, "inout", ("vals", [(k * 7) % 5 + 1 for k in range(36 * n1)])), Arr("b2", "i32", npx, "inout", ("range", 0, n2)), Sc("int", n2), Arr("res2", "double", 36 * n2, "inout", ("vals", [(k * 3) % 7 + 1 for k in range(36 * n2)])), Sc("int", 0), Sc("int", 1), Sc("int", npx)]))
                                           for npx, n1, n2 in [(2, 1, 1), (2, 1, 2), (3, 2, 2)]], note="labels inside 0..n as produced by connectedpixels")
    add("blob_moments", "connectedpixels", [("np=%d" % n, (lambda n=n: [Arr("res", "double", 36 * n, "inout", ("vals", [(k * 5) % 7 + 1 for k in range(36 * n)])), Sc("int", n)])) for n in (0, 1, 2)])
    add("clean_mask", "connectedpixels", [("%dx%d" % (ns, nf), (lambda ns=ns, nf=nf: [Arr("msk", "i8", ns * nf, "in", ("range", 0, 1)), Arr("ret", "i8", ns * nf, "out"), Sc("int", ns), Sc("int", nf)])) for ns, nf in img_shapes])
    add("make_clean_mask", "connectedpixels", [("%dx%d" % (ns, nf), (lambda ns=ns, nf=nf: [Arr("img", "float", ns * nf), Sc("float", R("cut")), Arr("msk", "i8", ns * nf, "work"), Arr("ret", "i8", ns * nf, "out"), Sc("int", ns), Sc("int", nf)])) for ns, nf in img_shapes[:2]])
    # ---- localmaxlabel.c
    add("localmaxlabel", "localmaxlabel", [("%dx%d" % (ns, nf), (lambda ns=ns, nf=nf: [Arr("im", "float", ns * nf), Arr("labels", "i32", ns * nf, "out"), Arr("wrk", "u8", ns * nf, "work"), Sc("int", ns), Sc("int", nf)])) for ns, nf in [(3, 3), (2, 2), (2, 3), (3, 2)]])
    # ---- sparse_image.c  (sorted duplicate-free coordinates in a 3x3 grid unless said otherwise)
    def coords(name, n, W=3):
        Is = [I("%si_%d" % (name, k)) for k in range(n)]; Js = [I("%sj_%d" % (name, k)) for k in range(n)]
        def hyp():
            h = [z3.And(x >= 0, x < W) for x in Is + Js]
            for k in range(1, n): h.append(z3.Or(Is[k] > Is[k - 1], z3.And(Is[k] == Is[k - 1], Js[k] > Js[k - 1])))
            return h
        return Is, Js, hyp
    NNZ = (0, 1, 2, 3) + ((4,) if thorough else ())
    def sp(fn, mk):
        vs = []
        for n in NNZ:
            def v(n=n):
                Is, Js, hyp = coords("c", n); CTX.hyp += hyp()
                return mk(n, Arr("i", "u16", n, "in", ("sym", Is)), Arr("j", "u16", n, "in", ("sym", Js)))
            vs.append(("nnz=%d" % n, v))
        add(fn, "sparse_image", vs)
    sp("sparse_is_sorted", lambda n, i, j: [i, j, Sc("int", n)])
    sp("sparse_connectedpixels", lambda n, i, j: [Arr("v", "float", n), i, j, Sc("int", n), Sc("float", R("thr")), Arr("labels", "i32", n, "out")])
    sp("sparse_connectedpixels_splat", lambda n, i, j: [Arr("v", "float", n), i, j, Sc("int", n), Sc("float", R("thr")), Arr("labels", "i32", n, "inout", ("vals", [0] * n)), Arr("Z", "i32", 25, "work"), Sc("int", 3), Sc("int", 3)])
    sp("sparse_blob2Dproperties", lambda n, i, j: [Arr("v", "float", n, "in", ("vals", [2, 7, 1, 8, 3][:n])), i, j, Sc("int", n), Arr("labels", "i32", n, "in", ("range", 0, 2)), Arr("res", "double", 2 * 11, "out"), Sc("int", 2)])
    sp("sparse_smooth", lambda n, i, j: [Arr("v", "float", n), i, j, Sc("int", n), Arr("s", "float", n, "out")])
    sp("sparse_localmaxlabel", lambda n, i, j: [Arr("v", "float", n), i, j, Sc("int", n), Arr("MV", "float", n, "work"), Arr("iMV", "i32", n, "work"), Arr("labels", "i32", n, "out")])
    def two(fn, mk):
        vs = []
        for n1, n2 in [(0, 0), (0, 1), (1, 1), (2, 1), (2, 2)] + ([(3, 2)] if thorough else []):
            def v(n1=n1, n2=n2):
                I1, J1, h1 = coords("a", n1); I2, J2, h2 = coords("b", n2); CTX.hyp += h1() + h2()
                return mk(n1, n2, Arr("i1", "u16", n1, "in", ("sym", I1)), Arr("j1", "u16", n1, "in", ("sym", J1)), Arr("i2", "u16", n2, "in", ("sym", I2)), Arr("j2", "u16", n2, "in", ("sym", J2)))
            vs.append(("%d+%d" % (n1, n2), v))
        add(fn, "sparse_image", vs)
    two("sparse_overlaps", lambda n1, n2, i1, j1, i2, j2: [i1, j1, Arr("k1", "i32", n1, "out"), Sc("int", n1), i2, j2, Arr("k2", "i32", n2, "out"), Sc("int", n2)])
    two("coverlaps", lambda n1, n2, i1, j1, i2, j2: [i1, j1, Arr("l1", "i32", n1, "in", ("range", 1, 2)), Sc("int", n1), i2, j2, Arr("l2", "i32", n2, "in", ("range", 1, 2)), Sc("int", n2), Arr("mat", "i32", 4, "work"), Sc("int", 2), Sc("int", 2), Arr("results", "i32", 3 * max(1, min(n1, n2, 4)), "work")])
    add("compress_duplicates", "sparse_image", [("n=%d labels<=%d" % (n, L), (lambda n=n, L=L: [Arr("i", "i32", n, "inout", ("range", 0, L)), Arr("j", "i32", n, "inout", ("range", 0, L)), Arr("oi", "i32", n, "work"), Arr("oj", "i32", n, "work"), Arr("tmp", "i32", L + 1, "work"), Sc("int", n), Sc("int", L + 1)]))
                                                for n, L in [(0, 1), (1, 1), (2, 2), (3, 2)]], note="labels up to nt-1")
    add("mask_to_coo", "sparse_image", [("%dx%d nnz=%d" % (ns, nf, nnz), (lambda ns=ns, nf=nf, nnz=nnz: [Arr("msk", "i8", ns * nf), Sc("int", ns), Sc("int", nf), Arr("i", "u16", nnz, "work"), Arr("j", "u16", nnz, "work"), Sc("int", nnz), Arr("w", "i32", ns, "work")]))
                                        for ns, nf, nnz in [(2, 2, 0), (2, 2, 1), (2, 2, 4), (2, 3, 3)]])
    for kind, ety in (("u16", "u16"), ("u32", "u32"), ("f32", "float")):
        add("tosparse_" + kind, "sparse_image", [("2x2", (lambda kind=kind, ety=ety: [Arr("img", ety, 4), Arr("msk", "u8", 4), Arr("row", "u16", 4, "work"), Arr("col", "u16", 4, "work"), Arr("val", ety, 4, "work"),
                                                          Sc("int", I("cut")) if kind == "u16" else Sc("float", R("cut")), Sc("int", 2), Sc("int", 2)]))])
    # ---- closest.c
    add("closest_vec", "closest", [("nv=%d dim=%d" % (nv, dim), (lambda nv=nv, dim=dim: [Arr("x", "double", nv * dim), Sc("int", dim), Sc("int", nv), Arr("ic", "i32", nv, "out")])) for nv, dim in [(2, 1), (2, 3), (3, 2)]], note="at least two vectors")
    add("closest", "closest", [("nx=%d nv=%d" % (nx, nv), (lambda nx=nx, nv=nv: [Arr("x", "double", nx), Arr("v", "double", nv), Arr("ibest", "i32", 1, "out"), Arr("best", "double", 1, "out"), Sc("int", nx), Sc("int", nv)])) for nx, nv in [(0, 0), (1, 1), (2, 2)]])
    for fn in ("score", "score_and_refine", "score_and_assign", "refine_assigned"):
        vs = []
        for ng in (0, 1, 2):
            def v(fn=fn, ng=ng):
                base = [Arr("ubi", "double", 9, "inout" if fn in ("score_and_refine", "refine_assigned") else "in"), Arr("gv", "double", 3 * ng)]
                if fn == "score": return base + [Sc("double", R("tol")), Sc("int", ng)]
                if fn == "score_and_refine": return base + [Sc("double", R("tol")), Arr("n", "i32", 1, "out"), Arr("sumdrlv2", "double", 1, "out"), Sc("int", ng)]
                if fn == "score_and_assign": return base + [Sc("double", R("tol")), Arr("drlv2", "double", ng, "inout"), Arr("labels", "i32", ng, "inout"), Sc("int", I("label")), Sc("int", ng)]
                return base + [Arr("labels", "i32", ng, "in", ("range", 0, 1)), Sc("int", 1), Arr("npk", "i32", 1, "out"), Arr("sumdrlv2", "double", 1, "out"), Sc("int", ng)]
            vs.append(("ng=%d" % ng, v))
        add(fn, "closest", vs, mul="uf")
    for bits, ity in ((64, "i64"), (32, "i32")):
        add("put_incr%d" % bits, "closest", [("n=%d m=%d check=%d" % (n, m, bc), (lambda n=n, m=m, bc=bc, ity=ity: [Arr("data", "float", m, "inout"), Arr("ind", ity, n, "in", ("range", -3, m + 2) if bc else ("range", 0, m - 1)), Arr("vals", "float", n), Sc("int", bc), Sc("int", n), Sc("int", m)]))
                                             for n, m, bc in [(0, 1, 0), (2, 2, 1), (2, 2, 0), (1, 3, 1)]], note="without boundscheck the indices must be inside the array (documented)")
    add("cluster1d", "closest", [("n=%d" % n, (lambda n=n: [Arr("ar", "double", n), Sc("int", n), Arr("order", "i32", n, "in", ("vals", list(range(n)))), Sc("double", R("tol")), Arr("nclusters", "i32", 1, "out"), Arr("ids", "i32", n, "work"), Arr("avgs", "double", n, "work")])) for n in (1, 2, 3)], note="n >= 1")
    add("score_gvec_z", "closest", [("n=%d recompute=%d" % (n, rc), (lambda n=n, rc=rc: [Arr("ubi", "double", 9), Arr("ub", "double", 9), Arr("gv", "double", 3 * n), Arr("g0", "double", 3 * n, "inout"), Arr("g1", "double", 3 * n, "inout"), Arr("g2", "double", 3 * n, "inout"), Arr("e", "double", 3 * n, "out"), Sc("int", rc), Sc("int", n)])) for n, rc in [(0, 1), (1, 0)]], mul="uf")
    for fn in ("misori_cubic", "misori_orthorhombic", "misori_tetragonal", "misori_monoclinic"):
        add(fn, "closest", [("3x3", (lambda: [Arr("u1", "double", 9), Arr("u2", "double", 9)]))], mul="uf")
    add("count_shared", "closest", [("%d,%d" % (a, b), (lambda a=a, b=b: [Arr("pi", "i32", a, "in", ("range", 0, 3)), Sc("int", a), Arr("pj", "i32", b, "in", ("range", 0, 3)), Sc("int", b)])) for a, b in [(0, 0), (1, 2), (2, 2)]])
    add("verify_rounding", "closest", [("n=%d" % n, (lambda n=n: [Sc("int", n)])) for n in (0, 20)])
    # ---- cdiffraction.c
    for fn, ncol in (("compute_gv", 3), ("compute_geometry", 6)):
        add(fn, "cdiffraction", [("ng=%d" % ng, (lambda ng=ng, ncol=ncol: [Arr("xlylzl", "double", 3 * ng), Arr("omega", "double", ng), Sc("double", Fraction(1)), Sc("double", R("wvln")), Sc("double", R("wedge")), Sc("double", R("chi")), Arr("t", "double", 3), Arr("out", "double", ncol * ng, "out"), Sc("int", ng)])) for ng in (0, 1, 2)], mul="uf")
    add("compute_xlylzl", "cdiffraction", [("n=%d" % n, (lambda n=n: [Arr("s", "double", n), Arr("f", "double", n), Arr("p", "double", 4), Arr("r", "double", 9), Arr("dist", "double", 3), Arr("xlylzl", "double", 3 * n, "out"), Sc("int", n)])) for n in (0, 1, 2)], mul="uf")
    add("quickorient", "cdiffraction", [("3x3", (lambda: [Arr("ubi", "double", 9, "inout"), Arr("bt", "double", 9)]))], mul="uf")
    # ---- darkflat.c
    add("uint16_to_float_darksub", "darkflat", [("npx=%d" % n, (lambda n=n: [Arr("img", "float", n, "out"), Arr("drk", "float", n), Arr("data", "u16", n), Sc("int", n)])) for n in (0, 4)])
    add("uint16_to_float_darkflm", "darkflat", [("npx=%d" % n, (lambda n=n: [Arr("img", "float", n, "out"), Arr("drk", "float", n), Arr("flm", "float", n), Arr("data", "u16", n), Sc("int", n)])) for n in (0, 4)], mul="uf")
    add("frelon_lines", "darkflat", [("2x2", (lambda: [Arr("img", "float", 4, "inout"), Sc("int", 2), Sc("int", 2), Sc("float", R("cut"))]))])
    add("frelon_lines_sub", "darkflat", [("2x2", (lambda: [Arr("img", "float", 4, "inout"), Arr("drk", "float", 4, "inout"), Sc("int", 2), Sc("int", 2), Sc("float", R("cut"))]))])
    add("array_stats", "darkflat", [("npx=4", (lambda: [Arr("img", "float", 4), Sc("int", 4), Arr("mn", "float", 1, "out"), Arr("mx", "float", 1, "out"), Arr("mean", "float", 1, "out"), Arr("var", "float", 1, "out")]))], mul="uf")
    add("array_histogram", "darkflat", [("npx=%d nhist=%d" % (n, nh), (lambda n=n, nh=nh: [Arr("img", "float", n), Sc("int", n), Sc("float", Fraction(0)), Sc("float", Fraction(nh)), Arr("hist", "i32", nh, "out"), Sc("int", nh)])) for n, nh in [(2, 1), (2, 2), (3, 3)]],
        note="low=0, high=nhist (unit bins) so that the bin index is linear in the pixel value")
    def hist_fp(nh, mode, lohi=None):
        """IEEE mode: mode 'concrete' = given float32 low/high and any finite pixel; 'bounded' = symbolic low/high/pixel of magnitude <= 2^10 with
        high - low >= 2^-10; 'any' = any finite low < high and pixel"""
        F32 = z3.Float32(); fv = lambda x: z3.FPVal(x, F32)
        if mode == "concrete": lo, hi = fv(lohi[0]), fv(lohi[1])
        else:
            lo, hi = z3.FP("low", F32), z3.FP("high", F32)
            CTX.hyp += [z3.Not(z3.fpIsNaN(lo)), z3.Not(z3.fpIsInf(lo)), z3.Not(z3.fpIsNaN(hi)), z3.Not(z3.fpIsInf(hi)), z3.fpLT(lo, hi)]
        if mode == "bounded":
            px = z3.FP("img_0", F32)
            CTX.hyp += [z3.fpLEQ(z3.fpAbs(x), fv(1024.0)) for x in (lo, hi, px)] + [z3.fpGEQ(z3.fpSub(z3.RNE(), hi, lo), fv(0.0009765625))]
        return [Arr("img", "float", 1, "in", ("fp32",)), Sc("int", 1), Sc("float", lo), Sc("float", hi), Arr("hist", "i32", nh, "out"), Sc("int", nh)]
    import numpy as _np
    f32 = lambda x: float(_np.float32(x))
    HFP = [(-1.0, 1.0, 2), (0.0, 3.0, 3), (f32(0.1), f32(0.7), 3), (-5.5, 1000.25, 7)] + ([(f32(1e-3), f32(65535.3), 10), (-100.0, f32(0.3), 5)] if thorough else [])
    add("array_histogram", "darkflat", [("IEEE float32, npx=1, low=%r high=%r nhist=%d, any finite pixel" % (lo, hi, nh), (lambda lo=lo, hi=hi, nh=nh: hist_fp(nh, "concrete", (lo, hi)))) for lo, hi, nh in HFP] +
                                       ([("IEEE float32, npx=1 nhist=%d, |low|,|high|,|pixel| <= 2^10, high - low >= 2^-10" % nh, (lambda nh=nh: hist_fp(nh, "bounded"))) for nh in (2, 3)] +
                                        [("IEEE float32, npx=1 nhist=2, any finite low < high, any finite pixel", (lambda: hist_fp(2, "any")))] if thorough else []),
        note="bit-exact float32 semantics (z3 FP, round to nearest even) for img, low, high: the bin index depends on rounding")
    for fn, dty in (("reorder_u16_a32", "u16"), ("reorder_f32_a32", "float"), ("reorderlut_u16_a32", "u16"), ("reorderlut_f32_a32", "float")):
        add(fn, "darkflat", [("N=%d" % n, (lambda n=n, dty=dty, fn=fn: [Arr("data", dty, n), Arr("adr", "u32", n, "in", ("range", 0, n - 1)), Arr("out", dty, n, "out" if "lut" in fn else "work"), Sc("int", n)])) for n in (0, 1, 3)], note="addresses inside the array (documented)")
    for fn in ("array_mean_var_cut", "array_mean_var_msk"):
        add(fn, "darkflat", [("npx=4 n=%d" % n, (lambda n=n, fn=fn: [Arr("img", "float", 4, "in", ("vals", [1, 3, 2, 10]))] + ([Arr("msk", "u8", 4, "out")] if fn.endswith("msk") else []) + [Sc("int", 4), Arr("mean", "float", 1, "out"), Arr("std", "float", 1, "out"), Sc("int", n), Sc("float", Fraction(3)), Sc("int", 0)])) for n in (1, 3)],
            note="concrete image (mean/variance recursion); memory behaviour does not depend on the values")
    add("reorder_u16_a32_a16", "darkflat", [("2x2", (lambda: [Arr("data", "u16", 4), Arr("a0", "u32", 2, "in", ("vals", [0, 2])), Arr("a1", "i16", 4, "in", ("vals", [0, 1, 0, 1])), Arr("out", "u16", 4, "out"), Sc("int", 2), Sc("int", 2)]))],
        note="address tables of a valid (in-range) reordering")
    add("bgcalc", "darkflat", [("%dx%d" % (ns, nf), (lambda ns=ns, nf=nf: [Arr("img", "float", ns * nf, "in", ("vals", [Fraction(3 + (7 * k) % 5) for k in range(ns * nf)])), Arr("bg", "float", ns * nf, "out"), Arr("msk", "u8", ns * nf, "out"), Sc("int", ns), Sc("int", nf), Sc("float", Fraction(1, 2)), Sc("float", Fraction(1, 10)), Sc("float", Fraction(1))])) for ns, nf in [(2, 2), (2, 3)]],
        note="concrete image (the recursion is non-linear in the pixel values); memory behaviour does not depend on them")
    return K

BENIGN = ("float-div-by-zero", "uninitialised-read", "sqrt-of-negative")      # IEEE-defined / a load whose value is not used yet
SEPARATE = ("float-to-int-out-of-range",)

# ------------------------------------------------------------------------------------------------ running one variant
def uses_openmp(mod, fn, seen=None):
    """does the kernel (or a function it calls) fork an OpenMP team?"""
    seen = seen if seen is not None else set()
    if fn in seen or fn not in mod.funcs: return False
    seen.add(fn)
    for blk in mod.funcs[fn].blocks.values():
        for ins in blk:
            if ins.op == "call":
                if "@__kmpc_fork_call" in ins.text: return True
                m = re.search(r"@([\w.$]+)\(", ins.text)
                if m and uses_openmp(mod, m.group(1), seen): return True
    return False

def run_variant(mods, k, vname, mk, team=None):
    mod = mods[k["src"]]
    def run():
        llsym.MULMODE[0] = k["mul"]; symcore.RNE_MODE[0] = "fresh"
        try:
            it = Interp(mod, max_steps=400000); spec = mk()
            if team: it.omp_mode = "team"; it.team_size = team
            args, objs = build_args(it, spec)
            aborted = None
            try: ret = it.call(k["fn"], args)
            except symcore.PathEnd as e:
                aborted = str(e)
                if aborted == "infeasible": raise
            undefined = []
            for a, o, cells in objs:
                if a.role == "out" and aborted is None:
                    n = a.count if a.must_write is None else a.must_write
                    miss = [c for c in range(n) if (o.esize * c) not in o.mem and not o.zero]
                    if miss: undefined.append("%s[%s]" % (a.name, ",".join(map(str, miss[:4]))))
            if aborted not in (None, "exit") and not it.events: it.events.append(("aborted", aborted, None))
            return dict(events=list(it.events), undefined=undefined, evmodel=getattr(it, "last_model", None), objs=[(a.name, a.ty, a.count, a.role, cells) for a, o, cells in objs],
                        scalars=[(x.ty, x.v) for x in spec if isinstance(x, Sc)], order=[("s", None) if isinstance(x, Sc) else ("a", x.name) for x in spec])
        finally:
            llsym.MULMODE[0] = "nra"; symcore.RNE_MODE[0] = "toint"
    out = []
    for res, pc, hyp, taken, status in symcore.explore(run, maxpaths=20000, timeout_ms=20000):
        if res is None:
            out.append(dict(status=status, ev=[("path-abort", status, None)] if not status.startswith("end:") or status in ("end:null",) else [], undefined=[], model=None, taken=len(taken)))
            if status.startswith("end:") and status not in ("end:exit", "end:infeasible"):
                out[-1]["ev"] = [("aborted", status, None)]
            continue
        ev = [e for e in res["events"] if e[0] not in BENIGN]
        m = None
        if ev or res["undefined"]:
            mm = res.get("evmodel") if ev else None      # the model of the event itself (the path continues inside the bounds afterwards)
            if mm is None: mm = EX.model([])
            if mm is not None:
                def ev_(v):
                    if isinstance(v, z3.ExprRef):
                        x = mm.eval(v, model_completion=True)
                        if isinstance(x, z3.FPRef): x = z3.simplify(z3.fpToReal(x))
                        if z3.is_int_value(x): return x.as_long()
                        try: return float(x.as_fraction())
                        except Exception: return 0.0
                    return float(v) if isinstance(v, Fraction) else v
                m = dict(arrays={nm: (ty, cnt, role, [ev_(c) for c in cells]) for nm, ty, cnt, role, cells in res["objs"]}, scalars=[(t, ev_(v)) for t, v in res["scalars"]], order=res["order"])
        out.append(dict(status=status, ev=ev, undefined=res["undefined"], model=m, taken=len(taken)))
    return out

_VJ = {}
def _vjob(i):
    mods, k, vname, mk, team = _VJ[i]
    common.STATS.__init__(); import time; t0 = time.time()
    try: outs = run_variant(mods, k, vname, mk, team); err = None
    except llsym.TeamBarrier as e: outs = []; err = "team-barrier"
    except NotImplementedError as e: outs = []; err = "unsupported: %s" % e
    except symcore.Inconclusive as e: outs = []; err = "inconclusive: %s" % e
    st = common.STATS.asdict(); st["wall"] = round(time.time() - t0, 1)
    return outs, err, st

# ------------------------------------------------------------------------------------------------ sanitizer replay
def c_driver(mod, k, model):
    f = mod.funcs[k["fn"]]
    def cty(t):
        if isinstance(t, tuple) and t[0] == "ptr":
            inner = t[1]
            while isinstance(inner, tuple) and inner[0] == "arr": inner = inner[2]
            return {"float": "float", "double": "double", "i32": "int32_t", "i8": "int8_t", "i16": "uint16_t", "i64": "int64_t"}.get(inner, "void") + " *"
        return {"float": "float", "double": "double", "i32": "int", "i64": "int64_t", "i8": "char", "i16": "short"}[t]
    ret = {"void": "void", "i32": "int", "double": "double", "float": "float"}.get(f.rettype if isinstance(f.rettype, str) else "void", "int")
    lines = ["#include <stdint.h>", "#include <stdlib.h>", "#include <string.h>", "#include <stdio.h>",
             "%s %s(%s);" % (ret, k["fn"], ", ".join("void *" if cty(t).endswith("*") else cty(t) for t, _ in f.params)), "int main(void) {"]
    call = []; si = 0
    for kind, nm in model["order"]:
        if kind == "s":
            ty, v = model["scalars"][si]; si += 1
            call.append(("%d" % int(v)) if ty == "int" else ("%.17g" % float(v)))
        else:
            ty, cnt, role, vals = model["arrays"][nm]; ct, es = CT[ty]
            lines.append("  %s *%s = (%s *) malloc(%d);" % (ct, nm, ct, es * cnt))       # exact size: one byte more is a heap overflow
            if role in ("in", "inout"):
                for i, v in enumerate(vals):
                    if ty in ("float", "double"): lines.append("  %s[%d] = %.17g;" % (nm, i, float(v)))
                    else: lines.append("  %s[%d] = (%s) %dLL;" % (nm, i, ct, int(v)))
            call.append(nm)
    lines.append("  %s(%s);" % (k["fn"], ", ".join(call))); lines.append("  return 0;\n}")
    return "\n".join(lines)

def sanitizer_replay(mod, k, model, uninit=False, threads=None):
    d = common.scratch("verif_c20_"); open(os.path.join(d, "drv.c"), "w").write(c_driver(mod, k, model))
    srcs = [os.path.join(common.REPO, "src", n + ".c") for n in common.C_FILES] + [os.path.join(d, "drv.c")]
    exe = os.path.join(d, "drv")
    if uninit:
        cmd = ["gcc", "-O0", "-g", "-fopenmp", "-DNDEBUG", "-I" + os.path.join(common.REPO, "src")] + srcs + ["-o", exe, "-lm"]
        r = subprocess.run(cmd, capture_output=True, text=True)
        if r.returncode: return None, "driver build failed: " + r.stderr[-300:]
        r = subprocess.run(["valgrind", "-q", "--error-exitcode=9", "--track-origins=no", exe], capture_output=True, text=True, timeout=300, env=dict(os.environ, OMP_NUM_THREADS="1"))
        return (r.returncode == 9), r.stderr[-400:]
    if threads:      # an event of the team model: the real OpenMP build (gcc + libgomp, ASan/UBSan) with that many threads
        cmd = ["gcc", "-O0", "-g", "-fsanitize=address,undefined", "-fno-sanitize-recover=all", "-fopenmp", "-DNDEBUG", "-I" + os.path.join(common.REPO, "src")] + srcs + ["-o", exe, "-lm"]
        r = subprocess.run(cmd, capture_output=True, text=True)
        if r.returncode: return None, "driver build failed: " + r.stderr[-300:]
        r = subprocess.run([exe], capture_output=True, text=True, timeout=120, env=dict(os.environ, ASAN_OPTIONS="detect_leaks=0", OMP_NUM_THREADS=str(threads), OMP_DYNAMIC="false"))
        hit = r.returncode != 0 and ("AddressSanitizer" in r.stderr or "runtime error" in r.stderr or r.returncode < 0)
        msg = [l for l in r.stderr.split("\n") if "ERROR" in l or "runtime error" in l or "SUMMARY" in l]
        return hit, ("OMP_NUM_THREADS=%d: " % threads) + " | ".join(msg[:3])[:400]
    cmd = ["clang-14", "-O0", "-g", "-fsanitize=address,undefined", "-fno-sanitize-recover=all", "-fopenmp", "-DNDEBUG", "-I" + os.path.join(common.VERIF, "stubs") if False else "-I" + os.path.join(common.REPO, "src")] + srcs + ["-o", exe, "-lm"]
    r = subprocess.run(cmd, capture_output=True, text=True)
    if r.returncode:
        cmd = [c for c in cmd if c != "-fopenmp"] + ["-I" + os.path.join(common.VERIF, "stubs")]
        r = subprocess.run(cmd, capture_output=True, text=True)
        if r.returncode: return None, "driver build failed: " + r.stderr[-300:]
    r = subprocess.run([exe], capture_output=True, text=True, timeout=120, env=dict(os.environ, ASAN_OPTIONS="detect_leaks=0", OMP_NUM_THREADS="1"))
    hit = r.returncode != 0 and ("AddressSanitizer" in r.stderr or "runtime error" in r.stderr or r.returncode < 0)
    msg = [l for l in r.stderr.split("\n") if "ERROR" in l or "runtime error" in l or "SUMMARY" in l]
    return hit, " | ".join(msg[:3])[:400]

# ------------------------------------------------------------------------------------------------ main
def main():
    args = parse_args("C20"); ck = Check("C20", args.tier); thorough = args.tier == "thorough"
    symcore.Explorer.incremental = True
    names = ["closest", "cdiffraction", "blobs", "connectedpixels", "sparse_image", "localmaxlabel", "darkflat"]
    ir = common.build_ir(names); mods = {}
    for n in names:
        m = Module(); m.load(ir[n])
        if n in ("connectedpixels", "sparse_image"): m.load(ir["blobs"])
        mods[n] = m
    K = kernels(thorough)
    iro = common.build_ir(names, openmp=True); modso = {}      # the same sources compiled with -fopenmp: outlined parallel regions, runtime calls
    for n in names:
        m = Module(); m.load(iro[n])
        if n in ("connectedpixels", "sparse_image"): m.load(iro["blobs"])
        modso[n] = m
    exported = set(re.findall(r"^\s*(?:function|subroutine)\s+(\w+)", open(os.path.join(common.REPO, "src", "_cImageD11.pyf")).read(), re.M))
    covered = set(k["fn"] for k in K)
    ck.extra["exported_kernels"] = len(exported); ck.extra["kernels_driven"] = sorted(covered & exported)
    ck.extra["kernels_not_driven"] = sorted(exported - covered - {"cimaged11_omp_set_num_threads", "cimaged11_omp_get_max_threads"})
    ck.encoded(*["src/%s.c:%s" % (k["src"], k["fn"]) for k in K])
    ck.bound("boundary shapes per kernel: images 2x2, 2x3, 3x2 (3x3 thorough); sparse patterns nnz 0..3 (4 thorough) on a 3x3 grid incl. empty rows and first/last row and column; 0..2 peaks / labels; nhist 1..3",
             "contents symbolic inside each kernel's documented preconditions (listed per kernel in 'notes'); exact-size objects as _cImageD11.pyf hands them to C",
             "not driven: %s" % ", ".join(ck.extra["kernels_not_driven"]),
             "floating-point rounding and NaN/Inf inputs are outside the real-arithmetic model (except array_histogram, IEEE mode); allocation never fails",
             "OpenMP: every kernel with a parallel region is also run with teams of 2 and 3 (thorough: 4) threads, each member executing the region to completion with its own thread number and its static share of the worksharing loops (memory safety per thread; races are C07, C11, C13); regions containing barriers are refused by this model")
    ck.assume("signed overflow is reported although the shipped flags contain -fno-strict-overflow", "float-to-int conversions out of range are reported in a class of their own (not part of -fsanitize=undefined in clang 14)",
              "an aborted path (exit() in a bounds check the kernel itself performs) counts as an event")
    _VJ.clear(); idx = []
    teams = (2, 3) if not thorough else (2, 3, 4)
    nteam = 0; barrier_kernels = set()
    for k in K:
        for vname, mk in k["variants"]:
            _VJ[len(idx)] = (mods, k, vname, mk, None); idx.append((k, vname))
        if uses_openmp(modso[k["src"]], k["fn"]):
            # the same shapes with a team of several threads: each member runs the parallel region to completion with its own thread number
            vs = [v for v in k["variants"] if "IEEE" not in v[0]]
            for vname, mk in ([vs[0], vs[-1]] if len(vs) > 1 and not thorough else vs):
                for nt in teams:
                    _VJ[len(idx)] = (modso, k, vname, mk, nt); idx.append((k, "%s, team of %d threads" % (vname, nt))); nteam += 1
    res = common.pmap(_vjob, list(range(len(idx))))
    nviol = 0; sep = []
    for (k, vname), (outs, err, st) in zip(idx, res):
        ck.merge_stats(st); name = "%s[%s]" % (k["fn"], vname); ck.extra.setdefault("slowest", []).append((st.get("wall", 0), name, len(outs)))
        if err == "team-barrier":      # parallel region with barriers: the run-to-completion team model does not apply (C13 explores its schedules)
            barrier_kernels.add(k["fn"]); continue
        if err and "team of" in vname and err.startswith("unsupported"):
            ck.extra.setdefault("team_variants_unsupported", []).append("%s: %s" % (name, err[:120])); continue
        if err: ck.undecided(name, err); continue
        ck.path(None, n=len(outs))
        for n_ in range(min(len(outs), 40)): ck.path("%s:%d" % (name, n_), n=0)
        evs = [(o, e) for o in outs for e in o["ev"]] ; und = [o for o in outs if o["undefined"]]
        hard = [(o, e) for o, e in evs if e[0] not in SEPARATE]
        sep += [(name, e) for o, e in evs if e[0] in SEPARATE]
        if not hard and not und:
            ck.ok("%s: no memory / UB event and all promised outputs defined on %d paths" % (name, len(outs))); continue
        # replay the first few distinct events
        done = set(); reported = False
        for o, e in hard[:6] + [(o, ("undefined-output", ",".join(o["undefined"]), None)) for o in und[:2]]:
            key = (e[0], e[2])
            if key in done or o["model"] is None: continue
            done.add(key)
            uninit = e[0].startswith("uninitialised") or e[0] == "undefined-output"
            if e[0] == "undefined-output":
                ck.violation("%s leaves promised output cells undefined: %s" % (name, e[1]), "%s.c:%s:undefined-output" % (k["src"], k["fn"]), dict(model=o["model"])); reported = True; nviol += 1; continue
            mt = re.search(r"team of (\d+) threads", vname)
            hit, msg = sanitizer_replay(mods[k["src"]], k, o["model"], uninit, threads=int(mt.group(1)) if mt else None)
            if hit:
                ck.violation("%s: %s %s (source line %s); sanitizer replay: %s" % (name, e[0], e[1], e[2], msg), "%s.c:%s:%s" % (k["src"], k["fn"], e[0]), dict(model=o["model"], event=list(map(str, e))))
                reported = True; nviol += 1
            elif hit is None: ck.not_reproduced("%s: %s (%s)" % (name, e, msg))
            else: ck.not_reproduced("%s: model event %s at line %s not confirmed by the sanitizer run (%s)" % (name, e[0], e[2], msg))
        ck.sample(dict(kernel=name, paths=len(outs), events=[str(e) for o, e in evs[:3]]))
    ck.extra["team_variants"] = nteam; ck.extra["team_model_refused_for"] = sorted(barrier_kernels)
    ck.extra["slowest"] = sorted(ck.extra.get("slowest", []), reverse=True)[:12]
    ck.extra["float_to_int_out_of_range"] = sorted(set("%s line %s" % (n, e[2]) for n, e in sep))[:20]
    ck.finish("Every exported kernel in the table is executed from clang IR on exactly-sized checked memory objects with symbolic contents inside its "
              "documented preconditions at boundary shapes; every access is bounds/lifetime/initialisation checked by the interpreter with the "
              "solver deciding symbolic offsets; promised outputs must be fully written. Events are confirmed on the real sources with a generated "
              "driver under ASan+UBSan / valgrind before being reported.")

if __name__ == "__main__":
    common.run_main(main)
