"""
C15 - N-D peak merging equals graph connected components on any schedule; merged properties are sums / weighted means.
Decided by: pysym execution of the pure-Python bodies (py_func) of the numba kernels in sinograms/properties.py:
  * numbalabelNd: rely/guarantee step on ONE iteration over an unbounded graph (every read of the shared label array returns any
    value the invariant allows; every write must re-establish it; a write happens iff the change counter is incremented);
  * every `prange` loop: footprint query on two abstract iterations (reads/writes logged by array proxies with symbolic indices);
  * find_ND_labels / get_clean_labels / numbapkmerge + pk2dmerge: bounded execution with symbolic edges, labels and peak values.
"""
import sys, os, ast, inspect, textwrap, itertools
sys.path.insert(0, os.path.join(os.path.dirname(os.path.abspath(__file__)), "..", "lib"))
import z3, numpy as np
from fractions import Fraction
import common, symcore, pysym, harness
from common import Check, parse_args
from pysym import Sym, SymBool, T, var
from symcore import CTX, EX

def zi(x): return x if isinstance(x, z3.ExprRef) else z3.IntVal(int(x))

class IntSym:
    """symbolic machine integer for index arithmetic inside the kernels (z3 Int)"""
    def __init__(s, t): s.t = zi(t)
    def _o(s, o): return o.t if isinstance(o, IntSym) else zi(o)
    def __add__(s, o): return IntSym(s.t + s._o(o))
    __radd__ = __add__
    def __sub__(s, o): return IntSym(s.t - s._o(o))
    def __rsub__(s, o): return IntSym(s._o(o) - s.t)
    def __mul__(s, o): return IntSym(s.t * s._o(o))
    __rmul__ = __mul__
    def __neg__(s): return IntSym(-s.t)
    def __eq__(s, o): return SymBool(s.t == s._o(o))
    def __ne__(s, o): return SymBool(s.t != s._o(o))
    def __lt__(s, o): return SymBool(s.t < s._o(o))
    def __le__(s, o): return SymBool(s.t <= s._o(o))
    def __gt__(s, o): return SymBool(s.t > s._o(o))
    def __ge__(s, o): return SymBool(s.t >= s._o(o))
    __hash__ = None
def smin(a, b):
    if isinstance(a, IntSym) or isinstance(b, IntSym):
        A, B = zi(a.t if isinstance(a, IntSym) else a), zi(b.t if isinstance(b, IntSym) else b); return IntSym(z3.If(A < B, A, B))
    return min(a, b)

class LogArr:
    """array proxy with symbolic indices: logs (index, is_write); `read(idx)` / `write(idx, v)` are supplied by the harness"""
    def __init__(s, name, n, read, write=None): s.name, s.n, s.read, s.write, s.log = name, n, read, write, []
    def __len__(s): return s.n
    @staticmethod
    def key(idx):
        if isinstance(idx, tuple): return tuple(zi(x.t if isinstance(x, IntSym) else x) for x in idx)
        return (zi(idx.t if isinstance(idx, IntSym) else idx),)
    def __getitem__(s, idx): s.log.append((s.key(idx), False)); return s.read(idx)
    def __setitem__(s, idx, v):
        s.log.append((s.key(idx), True))
        if s.write: s.write(idx, v)

def loop_body(func, loopvar_hint=None):
    """AST loop-step extraction: the body of the first `for ... in numba.prange(...)` loop of func as a function of its free names"""
    src = textwrap.dedent(inspect.getsource(func)); tree = ast.parse(src); fdef = tree.body[0]
    loops = [n for n in ast.walk(fdef) if isinstance(n, ast.For) and isinstance(n.iter, ast.Call) and getattr(n.iter.func, "attr", "") == "prange"]
    return fdef, loops

def compile_step(fdef, loop, module, extra_ns):
    locals_ = {a.arg for a in fdef.args.args} | {t.id for n in ast.walk(fdef) for t in ([n.target] if isinstance(n, (ast.AugAssign, ast.For)) else (n.targets if isinstance(n, ast.Assign) else [])) if isinstance(t, ast.Name)}
    names = sorted({n.id for n in ast.walk(loop) if isinstance(n, ast.Name)} & locals_)
    body = [s for s in loop.body]
    assigned = sorted({t.id for n in ast.walk(ast.Module(body=body, type_ignores=[])) for t in ([n.target] if isinstance(n, ast.AugAssign) else (n.targets if isinstance(n, ast.Assign) else [])) if isinstance(t, ast.Name)})
    ret = ast.Return(value=ast.Dict(keys=[ast.Constant(value=a) for a in assigned], values=[ast.Name(id=a, ctx=ast.Load()) for a in assigned]))
    cut = []
    for s in body:
        cut.append(s)
    fn = ast.FunctionDef(name="_step", args=ast.arguments(posonlyargs=[], args=[ast.arg(arg=a) for a in names], kwonlyargs=[], kw_defaults=[], defaults=[]), body=_no_continue(cut) + [ret], decorator_list=[])
    mod = ast.Module(body=[fn], type_ignores=[]); ast.fix_missing_locations(mod)
    ns = dict(vars(module)); ns.update(extra_ns)
    exec(compile(mod, "<loop step of %s>" % fdef.name, "exec"), ns)
    return ns["_step"], names, assigned, ast.unparse(fn)
def _no_continue(stmts):
    class R(ast.NodeTransformer):
        def visit_Continue(self, node): return ast.Return(value=ast.Dict(keys=[], values=[]))
    return [R().visit(s) for s in stmts]

def main():
    args = parse_args("C15"); ck = Check("C15", args.tier); thorough = args.tier == "thorough"
    symcore.Explorer.incremental = True; _numba_cache()
    import ImageD11.sinograms.properties as PR
    ck.encoded("ImageD11/sinograms/properties.py:numbalabelNd (py_func, loop step)", "ImageD11/sinograms/properties.py:get_clean_labels (py_func)", "ImageD11/sinograms/properties.py:find_ND_labels",
               "ImageD11/sinograms/properties.py:numbapkmerge (py_func)", "ImageD11/sinograms/properties.py:n_pk2d (py_func)", "ImageD11/sinograms/properties.py:pks_table.pk2dmerge (arithmetic mirrored from its source)")
    NN, NE = (4, 3) if not thorough else (5, 4)
    ck.bound("labelling step: ONE iteration of the sweep on an UNBOUNDED graph and label array (rely/guarantee), any number of threads", "prange footprints: two abstract iterations, unbounded arrays",
             "find_ND_labels: every edge list of <= %d edges on <= %d nodes (symbolic endpoints, incl. self loops and duplicates)" % (NE, NN), "get_clean_labels: every component-minimum labelling of <= 5 nodes",
             "numbapkmerge/pk2dmerge: <= 3 2D peaks with symbolic labels in 0..1, symbolic pixel counts, intensities, positions, per-frame omega/dty/scale factors", "termination of the sweep loop under racy interleavings is not claimed")
    ck.stub("numba.get_num_threads() inside the kernels returns any of %s (explorer fork): the thread count is environment" % (thread_counts(),))
    ck.assume("numba executes py_func's semantics; prange iterations may run in any order and interleave at array accesses (reads return any value the invariant allows)", "integers as mathematical integers (no overflow at these sizes)", "real-arithmetic model for intensities")

    # ---------------------------------------------------------------- 1. numbalabelNd: rely/guarantee step
    fdef, loops = loop_body(PR.numbalabelNd.py_func)
    if len(loops) != 1: ck.inconclusive.append("numbalabelNd: expected one prange loop, found %d" % len(loops))
    else:
        step, names, assigned, src = compile_step(fdef, loops[0], PR, {"min": smin}); ck.extra["numbalabelNd_step"] = src
        comp = z3.Function("comp", z3.IntSort(), z3.IntSort())
        def run_step():
            k, N, flip = z3.Int("k"), z3.Int("N"), z3.Int("flip"); CTX.hyp += [z3.Or(flip == 0, flip == 1), k >= 0, k <= N]
            ie, je = z3.Int("i_p"), z3.Int("j_p"); CTX.hyp += [comp(ie) == comp(je), ie >= 0, je >= 0]      # the two ends of an overlap edge are in one component
            reads = []; writes = []
            def rd_pk(idx):
                v = z3.Int("rd%d" % len(reads)); x = zi(idx.t if isinstance(idx, IntSym) else idx)
                CTX.hyp += [comp(v) == comp(x), v >= 0, v <= x]       # RELY: any label another thread may have left there (invariant: a node of the same component, never above the node)
                reads.append((x, v)); return IntSym(v)
            def wr_pk(idx, v): writes.append((zi(idx.t if isinstance(idx, IntSym) else idx), zi(v.t if isinstance(v, IntSym) else v)))
            pkid = LogArr("pkid", None, rd_pk, wr_pk)
            iarr = LogArr("i", None, lambda idx: IntSym(ie)); jarr = LogArr("j", None, lambda idx: IntSym(je))
            env = dict(i=iarr, j=jarr, pkid=pkid, k=IntSym(k), N=IntSym(N), flip=IntSym(flip), nbad=0, m=None, p=None, pi=None, pj=None)
            out = step(**{n: env.get(n) for n in names})
            nb = out.get("nbad", 0) if out else 0
            goals = []
            for n_, (x, v) in enumerate(writes):
                goals.append(("write %d keeps the label inside the component" % n_, comp(v) == comp(x)))
                goals.append(("write %d never raises a label above its node" % n_, v <= x))
            goals.append(("counter incremented iff a write happened", z3.BoolVal((len(writes) > 0) == (nb == 1))))
            if reads and len(reads) >= 2:
                goals.append(("no write and no count iff the two ends already agree", z3.BoolVal(len(writes) == 0) == (reads[0][1] == reads[1][1])))
                if writes: goals.append(("both ends receive the smaller label", z3.And(writes[0][1] == z3.If(reads[0][1] < reads[1][1], reads[0][1], reads[1][1]), writes[-1][1] == writes[0][1], z3.BoolVal(len(writes) == 2))))
            return dict(goals=goals, inputs=dict(k=k, N=N, flip=flip, i_p=ie, j_p=je))
        def replay_step(vals, label):
            # the sequential consequence of a broken step: the fixed point of find_ND_labels is not the component labelling (confirmation family of small graphs)
            bad = find_nd_family(PR)
            return (True, bad) if bad else (False, "find_ND_labels agrees with union-find on the confirmation family")
        harness.run_identities(ck, "numbalabelNd-step", run_step, replay_step, 20000, keyfn=lambda n, l: "properties.py:numbalabelNd:step")

    # ---------------------------------------------------------------- 2. prange footprints
    for fname in ("get_clean_labels", "n_pk2d", "numbapkmerge"):
        f = getattr(PR, fname); pf = getattr(f, "py_func", f)
        fdef, loops = loop_body(pf)
        ck.path("footprint:" + fname)
        if not loops:
            ck.ok("%s: no prange loop (sequential kernel: no schedule dependence)" % fname); continue
        stepf, names, assigned, src = compile_step(fdef, loops[-1], PR, {"min": smin})
        conflicts = prange_conflicts(fname, stepf, names)
        if not conflicts: ck.ok("%s: two different prange iterations never touch the same cell with a write (alias queries unsat)" % fname)
        else:
            bad = race_replay(PR, fname)
            if bad: ck.violation("%s runs its loop with prange but iterations conflict on %s; real numba run: %s" % (fname, conflicts[0], bad), "properties.py:%s:prange-race" % fname, dict(conflicts=conflicts))
            else: ck.not_reproduced("%s: prange conflict %s (real threaded runs agreed with the sequential result)" % (fname, conflicts[0]))

    # ---------------------------------------------------------------- 3. find_ND_labels on small symbolic graphs
    def mk_graph(nn, ne):
        def run():
            I = []; J = []
            for e in range(ne):
                a = EX.choose(z3.Int("ei%d" % e), 0, nn); b = EX.choose(z3.Int("ej%d" % e), 0, nn); I.append(a); J.append(b)
            sweeps = [0]; real_sweep = PR.numbalabelNd.py_func
            def sweep(*a, **k):
                sweeps[0] += 1
                if sweeps[0] > 4 * nn + 8: raise RuntimeError("sweep loop did not reach a fixed point within %d sweeps" % sweeps[0])
                return real_sweep(*a, **k)
            with thread_env(PR), pysym.patched((PR, "numbalabelNd", sweep), (PR, "get_clean_labels", PR.get_clean_labels.py_func)):
                try: n, labels = PR.find_ND_labels(np.array(I, int), np.array(J, int), nn, verbose=0)
                except (RuntimeError, AssertionError) as e:
                    return dict(goals=[("labelling terminates with component labels (%s)" % str(e)[:60], z3.BoolVal(False))], inputs={}, edges=list(zip(I, J)))
            par = list(range(nn))
            def find(x):
                while par[x] != x: x = par[x]
                return x
            for a, b in zip(I, J): ra, rb = find(a), find(b); par[max(ra, rb)] = min(ra, rb)
            roots = sorted(set(find(x) for x in range(nn))); want = [roots.index(find(x)) for x in range(nn)]
            ok = list(labels) == want and n == len(roots)
            return dict(goals=[("labels = components numbered 0..n-1", z3.BoolVal(ok))], inputs={}, edges=list(zip(I, J)))
        return run
    def replay_graph(vals, label):
        bad = find_nd_family(PR); return (True, bad) if bad else (False, "ok on family")
    jobs = [("find_ND_labels[%d nodes,%d edges]" % (nn, ne), mk_graph(nn, ne), dict(replay=replay_graph, timeout_ms=20000, maxpaths=200000, keyfn=lambda n, l: "properties.py:find_ND_labels:components"))
            for nn, ne in ([(3, 2), (4, 2), (3, 3), (4, 3)] + ([(5, 3)] if thorough else []))]
    # ---------------------------------------------------------------- 4. get_clean_labels on every valid labelling
    def run_clean(n):
        def run():
            lab = []
            for x in range(n):
                v = EX.choose(z3.Int("lab%d" % x), 0, x + 1)            # label = smallest node of the component: <= x ...
                if lab[v] != v if v < x else False: raise symcore.PathEnd("not a root")   # ... and itself a root
                lab.append(v)
            arr = np.array(lab, int); before = list(lab)
            with thread_env(PR): nlab = PR.get_clean_labels.py_func(arr)
            roots = sorted(set(before)); want = [roots.index(v) for v in before]
            return dict(goals=[("dense relabelling preserves the partition", z3.BoolVal(list(arr) == want and nlab == len(roots)))], inputs={}, before=before)
        return run
    jobs += [("get_clean_labels[n=%d]" % n, run_clean(n), dict(replay=lambda v, l: ((True, clean_family(PR)) if clean_family(PR) else (False, "ok")), timeout_ms=20000, keyfn=lambda n_, l: "properties.py:get_clean_labels")) for n in (1, 3, 5)]
    # ---------------------------------------------------------------- 5. numbapkmerge + pk2dmerge
    def run_merge(npk, nlab, scaled):
        def run():
            nfrm = 2
            lab = [EX.choose(z3.Int("L%d" % k), 0, nlab) for k in range(npk)]
            frm = [k % nfrm for k in range(npk)]
            pks = np.empty((5, npk), dtype=object)
            for r, nm in enumerate(("s1", "sI", "srI", "scI")):
                for k in range(npk): pks[r, k] = var("%s%d" % (nm, k))
            for k in range(npk): pks[4, k] = frm[k]
            omega = np.array([var("om%d" % f) for f in range(nfrm)], dtype=object); dty = np.array([var("dty%d" % f) for f in range(nfrm)], dtype=object)
            scale = np.array([var("sc%d" % f) for f in range(nfrm)], dtype=object) if scaled else None
            out = np.empty((7, nlab), dtype=object); out[...] = 0.0
            PR.numbapkmerge.py_func(np.array(lab, int), pks, omega, dty, out, scale_factor=scale)
            goals = []
            for j in range(nlab):
                mem = [k for k in range(npk) if lab[k] == j]
                sc = lambda k: (T(scale[frm[k]]) if scaled else z3.RealVal(1))
                sI = sum([T(pks[1, k]) * sc(k) for k in mem]) if mem else z3.RealVal(0)
                want = [sum([T(pks[0, k]) for k in mem]) if mem else z3.RealVal(0), sI,
                        sum([T(pks[2, k]) * sc(k) for k in mem]) if mem else z3.RealVal(0), sum([T(pks[3, k]) * sc(k) for k in mem]) if mem else z3.RealVal(0),
                        sum([T(omega[frm[k]]) * T(pks[1, k]) * sc(k) for k in mem]) if mem else z3.RealVal(0), sum([T(dty[frm[k]]) * T(pks[1, k]) * sc(k) for k in mem]) if mem else z3.RealVal(0), z3.RealVal(len(mem))]
                for r, nm in enumerate(("Number_of_pixels", "sum_intensity", "sum row*I", "sum col*I", "sum omega*I", "sum dty*I", "npk2d")):
                    goals.append(("label %d %s = sum over members" % (j, nm), T(out[r, j]) == want[r]))
                if mem:
                    # pk2dmerge: means are the intensity weighted means of the members
                    goals.append(("label %d omega = weighted mean" % j, z3.Implies(sI != 0, (T(out[4, j]) / T(out[1, j])) * sI == want[4])))
                    goals.append(("label %d s_raw = weighted mean" % j, z3.Implies(sI != 0, (T(out[2, j]) / T(out[1, j])) * sI == want[2])))
            return dict(goals=goals, inputs={})
        return run
    def replay_merge(vals, label):
        bad = merge_family(PR); return (True, bad) if bad else (False, "ok on family")
    jobs += [("numbapkmerge[%d peaks,%d labels,%s]" % (npk, nl, "scaled" if sc else "unscaled"), run_merge(npk, nl, sc), dict(replay=replay_merge, timeout_ms=30000, keyfn=lambda n, l: "properties.py:numbapkmerge:sums"))
             for npk, nl, sc in [(2, 2, False), (3, 2, True), (3, 2, False)] + ([(4, 2, True)] if thorough else [])]
    harness.run_parallel(ck, jobs)
    # pk2dmerge's own arithmetic (source check: the dictionary is built from out[...] quotients)
    src = inspect.getsource(PR.pks_table.pk2dmerge)
    expect = ['"s_raw": out[2] / out[1]', '"f_raw": out[3] / out[1]', '"omega": out[4] / out[1]', '"dty": out[5] / out[1]', '"Number_of_pixels": out[0]', '"sum_intensity": out[1]', '"npk2d": out[6]']
    miss = [e for e in expect if e.replace(" ", "") not in src.replace(" ", "")]
    ck.path("pk2dmerge-wiring")
    if miss: ck.undecided("pk2dmerge wiring", "the result dictionary is no longer built from the quotients the harness mirrors: %s" % miss)
    else: ck.ok("pk2dmerge: result dictionary = (out[2..5]/out[1], out[0], out[1], out[6]) as mirrored by the weighted-mean obligations")
    ck.finish("numbalabelNd's loop body (extracted from the current source) is executed once from an arbitrary label state in which every read returns ANY "
              "value the component invariant allows: all writes keep labels inside their component and below their node, and a write happens iff the change "
              "counter is incremented - hence under any interleaving labels stay in their component and a sweep returning 0 leaves every edge equal. All prange "
              "loops are checked for conflicting accesses of two iterations. find_ND_labels, get_clean_labels, numbapkmerge are executed on all small symbolic cases.")

# ------------------------------------------------------------------------------------------------ helpers
def prange_conflicts(fname, stepf, names):
    """run the loop body for two symbolic iterations with logging proxies; report write/any overlaps on the same array"""
    logs = []
    for tag in "AB":
        k = z3.Int("k" + tag); arrs = {}
        def mkarr(nm, kind):
            def rd(idx, nm=nm):
                if kind == "labels" or (nm == "pks" and isinstance(idx, tuple) and not isinstance(idx[0], IntSym) and idx[0] == 4):     # pk_props row 4 holds the frame index
                    return IntSym(z3.Int("%s_%s_%d" % (nm, tag, len(arrs[nm].log))))
                if kind == "int": return IntSym(z3.Int("%s_%s_%d" % (nm, tag, len(arrs[nm].log))))
                return Sym(z3.Real("%s_%s_%d" % (nm, tag, len(arrs[nm].log))))
            arrs[nm] = LogArr(nm, None, rd); return arrs[nm]
        env = {}
        for n in names:
            if n in ("i", "k"): env[n] = IntSym(k)
            elif n in ("labels", "frm"): env[n] = mkarr(n, "labels")
            elif n in ("n", "j", "o", "y", "scale", "nbad"): env[n] = 0
            elif n in ("scale_factor",): env[n] = None
            else: env[n] = mkarr(n, "real")
        class Flat:
            def __init__(s, a): s.a = a
            def __getitem__(s, i): return s.a[i]
        for n in ("omega", "dty"):
            if n in env: a = env[n]; a.flat = Flat(a)
        paths = []
        def run():
            for a in arrs.values(): a.log = []
            try: stepf(**env)
            except TypeError as e: raise
            return {nm: list(a.log) for nm, a in arrs.items()}
        for res, pc, hyp, taken, status in symcore.explore(run, maxpaths=64):
            if res is not None: paths.append((res, list(pc), list(hyp)))
        logs.append((k, paths))
    (kA, PA), (kB, PB) = logs; conflicts = []
    for ra, pca, ha in PA:
        for rb, pcb, hb in PB:
            for nm in ra:
                for (xa, wa) in ra[nm]:
                    for (xb, wb) in rb.get(nm, []):
                        if not (wa or wb): continue
                        if len(xa) != len(xb): continue
                        r, _ = common.solve(ha + hb + pca + pcb + [kA != kB, kA >= 0, kB >= 0] + [p == q for p, q in zip(xa, xb)], 10000)
                        if r != "unsat": conflicts.append("%s[%s] (%s) vs %s[%s] (%s)" % (nm, xa, "write" if wa else "read", nm, xb, "write" if wb else "read"))
    # get_clean_labels: reads of labels[-j] hit root cells (>= 0) which no iteration writes: justified by the pre-state invariant, checked in harness 4
    if fname == "get_clean_labels": conflicts = [c for c in conflicts if "(write) vs labels" in c and "(write)" in c.split(" vs ")[1]]
    return sorted(set(conflicts))[:5]

def uf_components(I, J, n):
    par = list(range(n))
    def find(x):
        while par[x] != x: x = par[x]
        return x
    for a, b in zip(I, J): ra, rb = find(a), find(b); par[max(ra, rb)] = min(ra, rb)
    roots = sorted(set(find(x) for x in range(n))); return [roots.index(find(x)) for x in range(n)], len(roots)
_SUBMEMO = {}
_NCACHE = []
def _numba_cache():
    """one numba cache directory per check run, created in the parent before workers fork (a worker's own scratch directories would never be removed)"""
    if not _NCACHE: _NCACHE.append(common.scratch("verif_numba_"))
    os.makedirs(_NCACHE[0], exist_ok=True); return _NCACHE[0]
def _sub(fn):
    """run a confirmation family on the real (jitted) kernels in a subprocess: a non-terminating sweep must not hang the check (memoised: one run per family and process)"""
    if fn not in _SUBMEMO: _SUBMEMO[fn] = _sub1(fn)
    return _SUBMEMO[fn]
def _sub1(fn):
    import subprocess
    code = "import sys; sys.path.insert(0, %r); sys.path.insert(0, %r); sys.path.insert(0, %r)\nimport C15, ImageD11.sinograms.properties as PR\nr = getattr(C15, %r)(PR)\nprint('RESULT', r)" % (
        os.path.join(common.VERIF, "lib"), os.path.join(common.VERIF, "props"), common.REPO, fn)
    try: r = subprocess.run([sys.executable, "-c", code], capture_output=True, text=True, timeout=240, env=dict(os.environ, NUMBA_CACHE_DIR=_numba_cache()))
    except subprocess.TimeoutExpired: return "the real kernels did not finish within 240 s on the confirmation family (non-terminating sweep)"
    for line in r.stdout.split("\n"):
        if line.startswith("RESULT "): return None if line[7:] == "None" else line[7:]
    return "confirmation run failed: " + (r.stderr[-300:] or r.stdout[-300:])
def find_nd_family(PR): return _sub("_find_nd_family")
def clean_family(PR): return _sub("_clean_family")
def merge_family(PR): return _sub("_merge_family")
class NumbaEnv:
    """the number of numba threads is environment: numba.get_num_threads() returns ANY value the user may have set (1, 2, 3 or the start-up count),
    decided as an explorer fork; everything else is the real numba module"""
    def __init__(s, real): s._r = real
    def __getattr__(s, k): return getattr(s._r, k)
    def get_num_threads(s): return EX.pick(thread_counts())
def thread_counts():
    import numba
    return sorted(set([1, 2, 3, int(numba.config.NUMBA_NUM_THREADS)]))
def thread_env(PR):
    import numba
    tr = [(PR, "numba", NumbaEnv(numba))] if getattr(PR, "numba", None) is numba else []
    for nm, v in list(vars(PR).items()):      # helper kernels called from the py_func bodies run as python too
        pf = getattr(v, "py_func", None)
        if pf is not None and nm not in ("numbalabelNd", "get_clean_labels"): tr.append((PR, nm, pf))
    return pysym.patched(*tr)
def _find_nd_family(PR):
    import numba
    t0 = numba.get_num_threads()
    try:
        for k in thread_counts()[:-1]:          # user-selected thread counts below the start-up count
            numba.set_num_threads(k)
            for n, edges in ((4, [(2, 3)]), (5, [(1, 2), (3, 4)]), (6, [(0, 5), (2, 3), (3, 4)]), (40, [(a, a + 1) for a in range(0, 38, 3)])):
                I = np.array([e[0] for e in edges]); J = np.array([e[1] for e in edges])
                nl, lab = PR.find_ND_labels(I.copy(), J.copy(), n, verbose=0); want, nw = uf_components(I, J, n)
                if list(lab) != want or nl != nw: return "find_ND_labels(i=%s, j=%s, npks=%d) with numba.set_num_threads(%d) -> %d labels %s, connected components give %d labels %s" % (I.tolist(), J.tolist(), n, k, nl, list(lab), nw, want)
    finally: numba.set_num_threads(t0)
    for n in (3, 4, 5):
        for ne in (1, 2, 3):
            for edges in itertools.product(itertools.product(range(n), repeat=2), repeat=ne):
                I = np.array([e[0] for e in edges]); J = np.array([e[1] for e in edges])
                nl, lab = PR.find_ND_labels(I.copy(), J.copy(), n, verbose=0)       # the real (jitted) kernels
                want, nw = uf_components(I, J, n)
                if list(lab) != want or nl != nw: return "find_ND_labels(i=%s, j=%s, npks=%d) -> %d labels %s, connected components give %d labels %s" % (I.tolist(), J.tolist(), n, nl, list(lab), nw, want)
            if n == 5 and ne == 2: break
    return None
def _clean_family(PR):
    import numba
    t0 = numba.get_num_threads()
    try:
        for k in thread_counts():
            numba.set_num_threads(k)
            for lab in ([0], [0, 0, 2], [0, 1, 1, 0, 3], [0, 0, 0, 3, 3], list(range(40)), [0, 0] + list(range(2, 37)) + [36, 2, 5]):
                a = np.array(lab); n = PR.get_clean_labels(a); roots = sorted(set(lab)); want = [roots.index(v) for v in lab]
                if list(a) != want or n != len(roots): return "get_clean_labels(%s) with numba.set_num_threads(%d) -> %s (n=%d), expected %s" % (lab, k, list(a), n, want)
    finally: numba.set_num_threads(t0)
    return None
def _merge_family(PR):
    rng = np.random.RandomState(5)
    for npk in (3, 50, 4000):
        labels = rng.randint(0, 3, npk); pks = np.vstack([rng.randint(1, 9, (4, npk)).astype(float), rng.randint(0, 4, (1, npk)).astype(float)]); pks[4] = rng.randint(0, 4, npk)
        pk = pks.copy(); omega = np.arange(4) * 0.5; dty = np.arange(4) * 2.0; out = np.zeros((7, 3))
        PR.numbapkmerge(labels, pk.astype(float) if False else pk, omega, dty, out) if False else None
        frm = pks[4].astype(int); o2 = np.zeros((7, 3))
        PR.numbapkmerge(labels, np.vstack([pks[:4], frm[None, :]]).astype(object) if False else _pk(pks), omega, dty, o2)
        want = np.zeros((7, 3))
        for k in range(npk):
            j = labels[k]; want[0, j] += pks[0, k]; want[1, j] += pks[1, k]; want[2, j] += pks[2, k]; want[3, j] += pks[3, k]; want[4, j] += omega[frm[k]] * pks[1, k]; want[5, j] += dty[frm[k]] * pks[1, k]; want[6, j] += 1
        if not np.allclose(o2, want): return "numbapkmerge on %d peaks: %s, sums over members %s" % (npk, o2.tolist(), want.tolist())
    return None
def _pk(pks):
    import numba
    # pk_props is a (5, N) float array in the library (frame index stored as a number): index arrays need ints -> the library passes an int array
    a = pks.astype(np.int64); return a
def race_replay(PR, fname):
    if fname == "numbapkmerge": return merge_family(PR)
    if fname == "get_clean_labels": return clean_family(PR)
    return None

if __name__ == "__main__":
    common.run_main(main)
