"""
C14 - sparse images round-trip and overlap counting is exact.
Decided by: llsym execution of mask_to_coo, tosparse_u16/u32/f32, sparse_is_sorted, sparse_overlaps, compress_duplicates and
coverlaps from clang IR with symbolic masks / pixel values / cuts and symbolic sorted coordinates over the full uint16 range;
pysym-style execution of sparse_frame.sort / reorder / mask on frames with symbolic pixel values.
"""
import sys, os, itertools, collections
sys.path.insert(0, os.path.join(os.path.dirname(os.path.abspath(__file__)), "..", "lib"))
import z3, numpy as np
from fractions import Fraction
import common, symcore, harness, llsym, creplay, pysym
from common import Check, parse_args
from llsym import Module, Interp, Ptr, mkobj, outobj, symobj, rd, snapshot
from symcore import CTX, EX

def mval(m, x):
    if not isinstance(x, z3.ExprRef): return x
    v = m.eval(x, model_completion=True)
    return v.as_long() if z3.is_int_value(v) else float(v.as_fraction())

def lex_lt(a, b): return z3.Or(a[0] < b[0], z3.And(a[0] == b[0], a[1] < b[1]))
def sorted_hyp(I, J): return [lex_lt((I[k - 1], J[k - 1]), (I[k], J[k])) for k in range(1, len(I))]

# ------------------------------------------------------------------------------------------------ dense -> sparse
def make_mask_run(mod, ns, nf, nnz):
    def run():
        it = Interp(mod); msk = symobj(it, "m", ns * nf, "i8", "const", lo=-128, hi=127)
        io = outobj(it, "i", nnz, "i16", "inout"); jo = outobj(it, "j", nnz, "i16", "inout"); w = outobj(it, "nrow", ns, "i32", "inout")
        ret = it.call("mask_to_coo", [Ptr(msk, 0), ns, nf, Ptr(io, 0), Ptr(jo, 0), nnz, Ptr(w, 0)])
        return dict(M=[msk.get(k) for k in range(ns * nf)], i=snapshot(io, nnz, 2), j=snapshot(jo, nnz, 2), ret=ret, events=list(it.events))
    return run
def on_mask_path(ns, nf, nnz):
    def f(res, pc, hyp, taken, status):
        if res is None: return dict(bad=["path ended: " + status])
        Mz = res["M"]; bad = []; n = ns * nf; base = list(hyp) + list(pc)
        cnt = sum([z3.If(Mz[k] != 0, 1, 0) for k in range(n)])
        if res["ret"] == 0:
            got = [(res["i"][k], res["j"][k]) for k in range(nnz)]
            if any(not isinstance(a, int) or not isinstance(b, int) for a, b in got): good = z3.BoolVal(False)
            else:
                pos = [a * nf + b for a, b in got]
                good = z3.BoolVal(pos == sorted(set(pos)) and all(0 <= a < ns and 0 <= b < nf for a, b in got))
                good = z3.And(good, *[(Mz[k] != 0) == z3.BoolVal(k in pos) for k in range(n)])
        elif res["ret"] == 4: good = cnt != nnz
        else: good = z3.BoolVal(False)
        r, cex = common.solve(base + [z3.Not(good)], 20000, want_model=True)
        if r != "unsat": bad.append("return %r / coordinates do not match {pixels with mask != 0} for some mask of this path set (%s)" % (res["ret"], r))
        if res["events"]: bad.append("memory events %s" % res["events"][:3])
        m = cex or EX.model([])
        M = [mval(m, x) for x in Mz]
        return dict(bad=bad, mask=M, key="".join("1" if x else "0" for x in M), nq=1)
    return f
def replay_mask(M, ns, nf):
    import ctypes as C
    L = creplay.lib(); msk = np.array(M, np.int8).reshape(ns, nf); sel = np.argwhere(msk != 0); nnz = len(sel)
    if nnz == 0: return []
    i = np.zeros(nnz, np.uint16); j = np.zeros(nnz, np.uint16); w = np.zeros(ns, np.int32); L.mask_to_coo.restype = C.c_int
    r = L.mask_to_coo(msk.ctypes.data_as(C.POINTER(C.c_int8)), ns, nf, i.ctypes.data_as(C.POINTER(C.c_uint16)), j.ctypes.data_as(C.POINTER(C.c_uint16)), nnz, creplay.iptr(w))
    if r != 0 or list(zip(i.tolist(), j.tolist())) != [tuple(x) for x in sel.tolist()]:
        return ["mask_to_coo(mask=%s) returned %d with coordinates %s; selected pixels (mask != 0) are %s" % (msk.tolist(), r, list(zip(i.tolist(), j.tolist())), sel.tolist())]
    return []

def make_tosparse_run(mod, kind, ns, nf):
    ety = {"u16": "i16", "u32": "i32", "f32": "float"}[kind]
    def run():
        it = Interp(mod); n = ns * nf
        if kind == "f32": img = symobj(it, "img", n, "float", "const"); cut = z3.Real("cut")
        elif kind == "u16": img = symobj(it, "img", n, "i16", "const", lo=-32768, hi=32767); cut = z3.Int("cut"); CTX.hyp += [cut >= 0, cut <= 65535]
        else: img = symobj(it, "img", n, "i32", "const", lo=-2 ** 31, hi=2 ** 31 - 1); cut = z3.Real("cut"); CTX.hyp += [cut >= 0, cut < 2 ** 32]
        msk = symobj(it, "m", n, "i8", "const", lo=-128, hi=127)
        row = outobj(it, "row", n, "i16", "inout"); col = outobj(it, "col", n, "i16", "inout"); val = outobj(it, "val", n, ety, "inout")
        ret = it.call("tosparse_" + kind, [Ptr(img, 0), Ptr(msk, 0), Ptr(row, 0), Ptr(col, 0), Ptr(val, 0), cut, ns, nf])
        es = llsym.sizeof(ety)
        return dict(P=[img.get(k) for k in range(n)], M=[msk.get(k) for k in range(n)], cut=cut, ret=ret,
                    row=snapshot(row, n, 2), col=snapshot(col, n, 2), val=snapshot(val, n, es), events=list(it.events))
    return run
def on_tosparse_path(kind, ns, nf):
    bits = {"u16": 16, "u32": 32}.get(kind)
    def uns(x): return z3.If(x < 0, x + (1 << bits), x) if bits else x
    def f(res, pc, hyp, taken, status):
        if res is None: return dict(bad=["path ended: " + status], nq=0)
        n = ns * nf; P, M, cut = res["P"], res["M"], res["cut"]; base = list(hyp) + list(pc); bad = []; nq = 0; cex = None
        k = res["ret"]
        if not isinstance(k, int): return dict(bad=["symbolic count"], nq=0)
        rows, cols = res["row"][:k], res["col"][:k]
        if any(not isinstance(x, int) for x in rows + cols): bad.append("symbolic coordinates")
        else:
            pos = [r * nf + c for r, c in zip(rows, cols)]
            if pos != sorted(set(pos)) or any(not (0 <= r < ns and 0 <= c < nf) for r, c in zip(rows, cols)): bad.append("coordinates not strictly row-major: %s" % list(zip(rows, cols)))
            else:
                selset = set(pos)
                thr = z3.ToInt(cut) if kind == "u32" else cut        # uicut = (uint32) cut truncates towards zero (cut >= 0)
                want = [z3.And(M[p] != 0, uns(P[p]) > thr) for p in range(n)]
                g = z3.And([want[p] == z3.BoolVal(p in selset) for p in range(n)])
                r, cex = common.solve(base + [z3.Not(g)], 20000, want_model=True); nq += 1
                if r != "unsat": bad.append("listed pixels are not exactly {mask and value > cut} (%s)" % r)
                for idx, p in enumerate(pos):
                    v = res["val"][idx]
                    if not (isinstance(v, z3.ExprRef) and v.eq(P[p])): bad.append("value %d is not the pixel at its coordinates" % idx)
        if res["events"]: bad.append("memory events %s" % res["events"][:3])
        out = dict(bad=bad, nq=nq)
        if bad:
            m = cex or EX.model([])
            if m is not None: out.update(P=[mval(m, x) for x in P], M=[mval(m, x) for x in M], cut=mval(m, cut))
        return out
    return f
def replay_tosparse(kind, P, M, cut, ns, nf):
    import ctypes as C
    L = creplay.lib(); n = ns * nf
    dt = {"u16": np.uint16, "u32": np.uint32, "f32": np.float32}[kind]
    img = (np.array(P, np.int64) % (1 << {"u16": 16, "u32": 32}[kind])).astype(dt) if kind != "f32" else np.array(P, np.float32)
    msk = (np.array(M, np.int64) % 256).astype(np.uint8)
    row = np.zeros(n, np.uint16); col = np.zeros(n, np.uint16); val = np.zeros(n, dt)
    fn = getattr(L, "tosparse_" + kind); fn.restype = C.c_int
    cutarg = C.c_int(int(cut)) if kind == "u16" else C.c_float(float(cut))
    k = fn(img.ctypes.data_as(C.c_void_p), msk.ctypes.data_as(C.c_void_p), row.ctypes.data_as(C.c_void_p), col.ctypes.data_as(C.c_void_p), val.ctypes.data_as(C.c_void_p), cutarg, ns, nf)
    c = int(cut) if kind != "f32" else np.float32(cut)
    want = [(p // nf, p % nf, img[p]) for p in range(n) if msk[p] and img[p] > c]
    got = list(zip(row[:k].tolist(), col[:k].tolist(), val[:k].tolist()))
    if got != [(a, b, v.item()) for a, b, v in want]: return ["tosparse_%s(img=%s, mask=%s, cut=%r) -> %s, expected %s" % (kind, img.tolist(), msk.tolist(), cut, got, want)]
    return []

# ------------------------------------------------------------------------------------------------ sortedness and overlaps
U16 = dict(lo=-32768, hi=32767)     # an i16 cell in its signed reading covers all 65536 bit patterns
def u(x): return z3.If(x < 0, x + 65536, x)

def make_sorted_run(mod, nnz):
    def run():
        it = Interp(mod); io = symobj(it, "i", nnz, "i16", "const", **U16); jo = symobj(it, "j", nnz, "i16", "const", **U16)
        ret = it.call("sparse_is_sorted", [Ptr(io, 0), Ptr(jo, 0), nnz])
        return dict(I=[u(io.get(k)) for k in range(nnz)], J=[u(jo.get(k)) for k in range(nnz)], ret=ret, events=list(it.events), raw=([io.get(k) for k in range(nnz)], [jo.get(k) for k in range(nnz)]))
    return run
def on_sorted_path(nnz):
    def f(res, pc, hyp, taken, status):
        if res is None: return dict(bad=["path ended: " + status], nq=0)
        I, J, ret = res["I"], res["J"], res["ret"]; base = list(hyp) + list(pc); bad = []
        if not isinstance(ret, int): return dict(bad=["symbolic return"], nq=0)
        strictly = z3.And(sorted_hyp(I, J)) if nnz > 1 else z3.BoolVal(True)
        unsorted = lambda k: lex_lt((I[k], J[k]), (I[k - 1], J[k - 1]))
        dup = lambda k: z3.And(I[k] == I[k - 1], J[k] == J[k - 1])
        if ret == 0: g = strictly
        elif ret > 0: g = z3.And(unsorted(ret), *[z3.And(z3.Not(unsorted(k)), z3.Not(dup(k))) for k in range(1, ret)]) if ret < nnz else z3.BoolVal(False)
        else: g = z3.And(dup(-ret), *[z3.And(z3.Not(unsorted(k)), z3.Not(dup(k))) for k in range(1, -ret)]) if -ret < nnz else z3.BoolVal(False)
        r, m = common.solve(base + [z3.Not(g)], 20000, want_model=True)
        if r != "unsat": bad.append("return value %d does not describe the coordinate list (%s)" % (ret, r))
        if res["events"]: bad.append("memory events %s" % res["events"][:3])
        out = dict(bad=bad, nq=1, key=ret)
        if bad and m is not None: out.update(i=[mval(m, x) % 65536 for x in res["raw"][0]], j=[mval(m, x) % 65536 for x in res["raw"][1]])
        return out
    return f
def replay_sorted(i, j):
    import ctypes as C
    L = creplay.lib(); ii = np.array(i, np.uint16); jj = np.array(j, np.uint16); L.sparse_is_sorted.restype = C.c_int
    r = L.sparse_is_sorted(ii.ctypes.data_as(C.c_void_p), jj.ctypes.data_as(C.c_void_p), len(i))
    pts = list(zip(i, j)); want = 0
    for k in range(1, len(pts)):
        if pts[k] < pts[k - 1]: want = k; break
        if pts[k] == pts[k - 1]: want = -k; break
    return [] if r == want else ["sparse_is_sorted(i=%s, j=%s) = %d, expected %d" % (i, j, r, want)]

def make_overlap_run(mod, kernel, n1, n2, npk):
    def run():
        it = Interp(mod)
        i1 = symobj(it, "i1_", n1, "i16", "const", **U16); j1 = symobj(it, "j1_", n1, "i16", "const", **U16)
        i2 = symobj(it, "i2_", n2, "i16", "const", **U16); j2 = symobj(it, "j2_", n2, "i16", "const", **U16)
        I1 = [u(i1.get(k)) for k in range(n1)]; J1 = [u(j1.get(k)) for k in range(n1)]; I2 = [u(i2.get(k)) for k in range(n2)]; J2 = [u(j2.get(k)) for k in range(n2)]
        CTX.hyp += sorted_hyp(I1, J1) + sorted_hyp(I2, J2)
        raw = ([i1.get(k) for k in range(n1)], [j1.get(k) for k in range(n1)], [i2.get(k) for k in range(n2)], [j2.get(k) for k in range(n2)])
        if kernel == "sparse_overlaps":
            k1 = outobj(it, "k1", n1, "i32", "inout"); k2 = outobj(it, "k2", n2, "i32", "inout")
            ret = it.call("sparse_overlaps", [Ptr(i1, 0), Ptr(j1, 0), Ptr(k1, 0), n1, Ptr(i2, 0), Ptr(j2, 0), Ptr(k2, 0), n2])
            return dict(kernel=kernel, I1=I1, J1=J1, I2=I2, J2=J2, ret=ret, k1=snapshot(k1, n1, 4), k2=snapshot(k2, n2, 4), events=list(it.events), raw=raw)
        l1 = symobj(it, "l1_", n1, "i32", "const", lo=1, hi=npk); l2 = symobj(it, "l2_", n2, "i32", "const", lo=1, hi=npk)
        mat = outobj(it, "mat", npk * npk, "i32", "inout"); results = outobj(it, "results", 3 * min(n1, n2, npk * npk) if min(n1, n2) else 3, "i32", "inout")
        ret = it.call("coverlaps", [Ptr(i1, 0), Ptr(j1, 0), Ptr(l1, 0), n1, Ptr(i2, 0), Ptr(j2, 0), Ptr(l2, 0), n2, Ptr(mat, 0), npk, npk, Ptr(results, 0)])
        return dict(kernel=kernel, I1=I1, J1=J1, I2=I2, J2=J2, ret=ret, L1=[l1.get(k) for k in range(n1)], L2=[l2.get(k) for k in range(n2)],
                    results=snapshot(results, 3 * (ret if isinstance(ret, int) else 0), 4), events=list(it.events), raw=raw)
    return run
def on_overlap_path(n1, n2, npk):
    def f(res, pc, hyp, taken, status):
        if res is None: return dict(bad=["path ended: " + status], nq=0)
        I1, J1, I2, J2 = res["I1"], res["J1"], res["I2"], res["J2"]; base = list(hyp) + list(pc); bad = []; nq = 0; cex = None
        same = [[z3.And(I1[p] == I2[q], J1[p] == J2[q]) for q in range(n2)] for p in range(n1)]
        if not isinstance(res["ret"], int): return dict(bad=["symbolic return"], nq=0)
        if res["kernel"] == "sparse_overlaps":
            hits = list(zip(res["k1"][:res["ret"]], res["k2"][:res["ret"]]))
            if any(not isinstance(a, int) or not isinstance(b, int) for a, b in hits): bad.append("symbolic hit list")
            else:
                g = z3.And([same[p][q] == z3.BoolVal((p, q) in hits) for p in range(n1) for q in range(n2)])
                r, cex = common.solve(base + [z3.Not(g)], 20000, want_model=True); nq += 1
                if r != "unsat": bad.append("hit list %s is not exactly the set of shared pixels (%s)" % (hits, r))
                if hits != sorted(hits) or len(set(hits)) != len(hits): bad.append("hit list not ascending / repeated: %s" % hits)
                if any(x != 0 for x in res["k1"][res["ret"]:]) or any(x != 0 for x in res["k2"][res["ret"]:]): bad.append("tails of k1/k2 not zeroed")
        else:
            L1, L2 = res["L1"], res["L2"]; tab = res["results"]; rows = [tuple(tab[3 * r:3 * r + 3]) for r in range(res["ret"])]
            if any(not isinstance(x, int) for row in rows for x in row): bad.append("symbolic results table")
            else:
                listed = {(a, b): c for a, b, c in rows}
                if len(listed) != len(rows): bad.append("a label pair is listed twice: %s" % rows)
                goals = []
                for a in range(1, npk + 1):
                    for b in range(1, npk + 1):
                        cnt = sum([z3.If(z3.And(same[p][q], L1[p] == a, L2[q] == b), 1, 0) for p in range(n1) for q in range(n2)]) if n1 * n2 else z3.IntVal(0)
                        goals.append(cnt == listed.get((a, b), 0))
                r, cex = common.solve(base + [z3.Not(z3.And(goals))], 20000, want_model=True); nq += 1
                if r != "unsat": bad.append("overlap table %s is not the exact pair count (%s)" % (rows, r))
        if res["events"]: bad.append("memory events %s" % res["events"][:3])
        out = dict(bad=bad, nq=nq, kernel=res["kernel"])
        if bad:
            m = cex or EX.model([])
            if m is not None:
                out.update(c=[[mval(m, x) % 65536 for x in arr] for arr in res["raw"]])
                if "L1" in res: out.update(L1=[mval(m, x) for x in res["L1"]], L2=[mval(m, x) for x in res["L2"]])
        return out
    return f
def replay_overlap(kernel, c, L1=None, L2=None, npk=2):
    import ctypes as C
    L = creplay.lib(); i1, j1, i2, j2 = [np.array(x, np.uint16) for x in c]; n1, n2 = len(i1), len(i2); p = lambda a: a.ctypes.data_as(C.c_void_p)
    pairs = [(a, b) for a in range(n1) for b in range(n2) if (i1[a], j1[a]) == (i2[b], j2[b])]
    if kernel == "sparse_overlaps":
        k1 = np.full(n1, 7, np.int32); k2 = np.full(n2, 7, np.int32); L.sparse_overlaps.restype = C.c_int
        r = L.sparse_overlaps(p(i1), p(j1), p(k1), n1, p(i2), p(j2), p(k2), n2)
        got = list(zip(k1[:r].tolist(), k2[:r].tolist()))
        return [] if got == pairs else ["sparse_overlaps(%s) -> %s, shared pixels %s" % ([x.tolist() for x in (i1, j1, i2, j2)], got, pairs)]
    l1 = np.array(L1, np.int32); l2 = np.array(L2, np.int32); mat = np.zeros(npk * npk, np.int32); res = np.zeros(3 * max(1, min(n1, n2, npk * npk)), np.int32); L.coverlaps.restype = C.c_int
    r = L.coverlaps(p(i1), p(j1), p(l1), n1, p(i2), p(j2), p(l2), n2, p(mat), npk, npk, p(res))
    want = collections.Counter((int(l1[a]), int(l2[b])) for a, b in pairs); got = {(int(res[3 * k]), int(res[3 * k + 1])): int(res[3 * k + 2]) for k in range(r)}
    return [] if got == dict(want) and r == len(want) else ["coverlaps(%s, labels %s %s) -> %s, exact pair counts %s" % ([x.tolist() for x in (i1, j1, i2, j2)], l1.tolist(), l2.tolist(), got, dict(want))]

def make_compress_run(mod, n, lmax):
    def run():
        it = Interp(mod); io = symobj(it, "i", n, "i32", "inout", lo=1, hi=lmax); jo = symobj(it, "j", n, "i32", "inout", lo=1, hi=lmax)
        I0 = [io.get(k) for k in range(n)]; J0 = [jo.get(k) for k in range(n)]
        oi = outobj(it, "oi", n, "i32", "inout"); oj = outobj(it, "oj", n, "i32", "inout"); tmp = outobj(it, "tmp", lmax + 1, "i32", "inout")
        ret = it.call("compress_duplicates", [Ptr(io, 0), Ptr(jo, 0), Ptr(oi, 0), Ptr(oj, 0), Ptr(tmp, 0), n, lmax + 1])
        return dict(I0=I0, J0=J0, ret=ret, i=snapshot(io, n, 4), j=snapshot(jo, n, 4), oi=snapshot(oi, n, 4), events=list(it.events))
    return run
def on_compress_path(n, lmax):
    def f(res, pc, hyp, taken, status):
        if res is None: return dict(bad=["path ended: " + status], nq=0)
        m = EX.model([]); bad = []
        I0 = [mval(m, x) for x in res["I0"]]; J0 = [mval(m, x) for x in res["J0"]]
        # the index concretisation forks fix every label on the path: confirm, then compare with the multiset of pairs
        r, _ = common.solve(list(hyp) + list(pc) + [z3.Or([res["I0"][k] != I0[k] for k in range(n)] + [res["J0"][k] != J0[k] for k in range(n)])], 20000)
        if r != "unsat": bad.append("labels not determined by the path")
        ref = sorted(collections.Counter(zip(I0, J0)).items())
        c = res["ret"]
        got = [((mval(m, res["i"][k]), mval(m, res["j"][k])), mval(m, res["oi"][k])) for k in range(c)] if isinstance(c, int) else None
        if got != ref: bad.append("compress_duplicates(%s,%s) -> %s, expected %s" % (I0, J0, got, ref))
        if res["events"]: bad.append("memory events %s" % res["events"][:3])
        return dict(bad=bad, nq=1, I0=I0, J0=J0, key=str((I0, J0)))
    return f
def replay_compress(I0, J0, lmax):
    import ctypes as C
    L = creplay.lib(); n = len(I0); i = np.array(I0, np.int32); j = np.array(J0, np.int32); oi = np.zeros(n, np.int32); oj = np.zeros(n, np.int32); tmp = np.zeros(lmax + 1, np.int32)
    L.compress_duplicates.restype = C.c_int; p = lambda a: a.ctypes.data_as(C.c_void_p)
    c = L.compress_duplicates(p(i), p(j), p(oi), p(oj), p(tmp), n, lmax + 1)
    got = [((int(i[k]), int(j[k])), int(oi[k])) for k in range(c)]; ref = sorted(collections.Counter(zip(I0, J0)).items())
    return [] if got == ref else ["compress_duplicates(%s, %s) -> %s, expected %s" % (I0, J0, got, ref)]

# ------------------------------------------------------------------------------------------------ python wrappers
def python_sort(ck):
    """the real sparse_frame.sort / reorder / mask on frames whose pixel values are symbolic (object arrays)"""
    import ImageD11.sparseframe as SF
    ck.encoded("ImageD11/sparseframe.py:sparse_frame.sort/sort_by/reorder/mask/set_pixels")
    # concrete coordinates (the ordering itself is numpy's C code), symbolic pixel values; the second and third sets put pixels at the ends of
    # the uint16 coordinate range and beyond flat index 65535 (any arithmetic on the uint16 coordinates would wrap there)
    nprob = 0
    for coords, shape in (([(0, 1), (2, 0), (1, 1), (0, 0)], (3, 2)), ([(0, 65533), (1, 0), (65533, 1), (0, 0)], (65534, 65534)), ([(299, 299), (0, 1), (218, 150), (219, 0)], (300, 300))):
      for n in (2, 3, 4):
        for perm in itertools.permutations(range(n)):
            pts = [coords[k] for k in perm]
            row = np.array([p[0] for p in pts], np.uint16); col = np.array([p[1] for p in pts], np.uint16)
            vals = np.array([pysym.var("v%d" % k) for k in range(n)], dtype=object)
            try:
                spf = SF.sparse_frame(row.copy(), col.copy(), shape); spf.set_pixels("intensity", vals.copy())
                spf.sort()
            except Exception as e:
                ck.path("python-sort:%s" % (pts,))
                st = ck.violation("sparse_frame.sort() raised %s: %s on the unsorted frame rows=%s cols=%s" % (type(e).__name__, e, row.tolist(), col.tolist()),
                                  "sparseframe.py:sparse_frame.sort:raises", dict(rows=row.tolist(), cols=col.tolist()))
                nprob += 1; continue
            ck.path("python-sort:%s" % (pts,))
            got = list(zip(spf.row.tolist(), spf.col.tolist())); want = sorted(pts)
            attached = all(spf.pixels["intensity"][k].t.eq(vals[pts.index(want[k])].t) for k in range(n))
            if got != want or not attached:
                ck.violation("sparse_frame.sort(): coordinates %s values attached=%s, expected %s" % (got, attached, want), "sparseframe.py:sparse_frame.sort:order", dict(rows=row.tolist(), cols=col.tolist())); nprob += 1
    if nprob == 0: ck.ok("sparse_frame.sort establishes row-major order and keeps (symbolic) pixel values attached on all permutations of <= 4 pixels (3 coordinate sets incl. the ends of the uint16 range)")
    # mask(): subset keeps coordinates and values together
    row = np.array([0, 0, 1, 2], np.uint16); col = np.array([0, 1, 1, 0], np.uint16); vals = np.array([pysym.var("v%d" % k) for k in range(4)], dtype=object); bad = 0
    for bits in itertools.product([False, True], repeat=4):
        if not any(bits): continue
        spf = SF.sparse_frame(row.copy(), col.copy(), (3, 2)); spf.set_pixels("intensity", vals.copy())
        sub = spf.mask(np.array(bits)); ck.path("python-mask:%s" % (bits,))
        keep = [k for k in range(4) if bits[k]]
        if list(zip(sub.row.tolist(), sub.col.tolist())) != [(int(row[k]), int(col[k])) for k in keep] or not all(sub.pixels["intensity"][n].t.eq(vals[k].t) for n, k in enumerate(keep)): bad += 1
    if bad: ck.violation("sparse_frame.mask() does not keep coordinates and values together", "sparseframe.py:sparse_frame.mask", {})
    else: ck.ok("sparse_frame.mask keeps coordinates and (symbolic) values together on all 15 non-empty selections of 4 pixels")

# ------------------------------------------------------------------------------------------------ main
def generic(ck, name, outs, replay, okmsg, keyprefix):
    ck.path(None, n=len(outs)); common.STATS.queries += sum(o.get("nq", 0) for o in outs)
    for n_, o in enumerate(outs): ck.path("%s:%s" % (name, o.get("key", n_)), n=0)
    badp = [o for o in outs if o["bad"]]
    if not badp: ck.ok("%s: %s on all %d paths" % (name, okmsg, len(outs))); return
    for o in badp[:3]:
        try: rb = replay(o)
        except KeyError: rb = None
        if rb: ck.violation("%s: %s" % (name, rb[0]), keyprefix, {k: v for k, v in o.items() if k != "bad"}); return
    ck.not_reproduced("%s: model says %s" % (name, badp[0]["bad"][:2]))

def main():
    args = parse_args("C14"); ck = Check("C14", args.tier); thorough = args.tier == "thorough"
    symcore.Explorer.incremental = True
    ir = common.build_ir(["sparse_image", "blobs"]); mod = Module()
    for k in ("sparse_image", "blobs"): mod.load(ir[k])
    ck.encoded("src/sparse_image.c:mask_to_coo", "src/sparse_image.c:tosparse_u16", "src/sparse_image.c:tosparse_u32", "src/sparse_image.c:tosparse_f32", "src/sparse_image.c:sparse_is_sorted",
               "src/sparse_image.c:sparse_overlaps", "src/sparse_image.c:compress_duplicates", "src/sparse_image.c:coverlaps")
    NS = 3 if thorough else 3; NOV = 3 if thorough else 2
    ck.bound("mask_to_coo: all int8 mask contents of 2x2, 2x3 (thorough 3x3) images for every nnz argument 1..ns*nf",
             "tosparse_u16/u32/f32: 2x2 (thorough 2x3) images, symbolic pixel values over the full machine range, symbolic mask bytes and cut (0 <= cut <= type max)",
             "sparse_is_sorted: nnz <= 4 symbolic coordinates over the full uint16 range",
             "sparse_overlaps / coverlaps: frames of <= %d + %d pixels, symbolic sorted coordinates over the full uint16 range, labels 1..2" % (NOV + 1, NOV),
             "compress_duplicates: n <= %d symbolic label pairs with labels 1..2, tmp of the documented size max+1" % (4 if thorough else 3),
             "to_dense (scipy.sparse) and the HDF5 group round trip are not applicable (C boundary / IO)")
    ck.assume("coverlaps: label 0 does not occur (documented by the Python caller)", "coordinates of both frames sorted and duplicate free (documented precondition of the overlap kernels)",
              "integer arithmetic modelled modulo 2^bits where it can wrap")
    # dense -> sparse
    for (ns, nf) in ([(2, 2), (2, 3)] + ([(3, 3)] if thorough else [])):
        for nnz in range(1, ns * nf + 1):
            outs = harness.par_paths(ck, make_mask_run(mod, ns, nf, nnz), on_mask_path(ns, nf, nnz), depth=4)
            generic(ck, "mask_to_coo[%dx%d,nnz=%d]" % (ns, nf, nnz), outs, lambda o, ns=ns, nf=nf: replay_mask(o["mask"], ns, nf),
                    "coordinates are exactly the pixels with mask != 0 in row-major order (4 returned when the count differs)", "mask_to_coo")
    for kind in ("u16", "u32", "f32"):
        for (ns, nf) in ([(2, 2)] + ([(2, 3)] if thorough else [])):
            outs = harness.par_paths(ck, make_tosparse_run(mod, kind, ns, nf), on_tosparse_path(kind, ns, nf), depth=4)
            generic(ck, "tosparse_%s[%dx%d]" % (kind, ns, nf), outs, lambda o, kind=kind, ns=ns, nf=nf: replay_tosparse(kind, o["P"], o["M"], o["cut"], ns, nf),
                    "exactly the pixels {mask and value > cut}, row-major, values attached", "tosparse_" + kind)
    # sortedness / overlaps
    for nnz in range(0, 5):
        outs = harness.par_paths(ck, make_sorted_run(mod, nnz), on_sorted_path(nnz), depth=4)
        generic(ck, "sparse_is_sorted[nnz=%d]" % nnz, outs, lambda o: replay_sorted(o["i"], o["j"]), "0 iff strictly row-major sorted, else the first offender (+unsorted / -duplicate)", "sparse_is_sorted")
    for kernel in ("sparse_overlaps", "coverlaps"):
        for n1, n2 in ([(0, 1), (1, 1), (2, 2), (NOV + 1, NOV)] if not thorough else [(0, 1), (1, 1), (2, 2), (3, 2), (3, 3), (4, 2)]):
            outs = harness.par_paths(ck, make_overlap_run(mod, kernel, n1, n2, 2), on_overlap_path(n1, n2, 2), depth=4)
            generic(ck, "%s[%d+%d px]" % (kernel, n1, n2), outs, lambda o: replay_overlap(o["kernel"], o["c"], o.get("L1"), o.get("L2")),
                    "result = exact shared-pixel pairs / pair counts, each pair once", kernel)
    for n in range(1, (4 if thorough else 3) + 1):
        outs = harness.par_paths(ck, make_compress_run(mod, n, 2), on_compress_path(n, 2), depth=4)
        generic(ck, "compress_duplicates[n=%d]" % n, outs, lambda o: replay_compress(o["I0"], o["J0"], 2), "unique pairs in sorted order with exact multiplicities", "compress_duplicates")
    python_sort(ck)
    ck.finish("The sparse-image kernels are executed from clang IR with symbolic masks, pixel values, cuts and coordinates (full uint16 / uint32 range, "
              "modular arithmetic modelled); per path the outputs are compared with the definition by z3: coordinates = selected pixels in strict "
              "row-major order with values attached; sparse_is_sorted; overlaps = exact pair counts for the linear (sparse_overlaps + "
              "compress_duplicates) and the matrix (coverlaps) algorithm against the same specification; sparse_frame.sort/mask on symbolic values.")

if __name__ == "__main__":
    common.run_main(main)
