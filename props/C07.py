"""
C07 - every peak is assigned to its best-fitting grain, whatever the order or the threads.
Decided by: llsym execution of score_and_assign (sequential IR: one-call step from an arbitrary pre-state; composed grain
sequences following the fight_over_peaks / assignlabels protocol), the OpenMP footprint query on the outlined loop of the
-fopenmp IR (no bound on n / threads), and pysym execution of indexing.myhistogram.
"""
import sys, os, itertools
sys.path.insert(0, os.path.join(os.path.dirname(os.path.abspath(__file__)), "..", "lib"))
import z3, numpy as np
from fractions import Fraction
import common, symcore, pysym, harness, llsym, creplay
from common import Check, parse_args
from llsym import Module, Interp, Ptr, mkobj, outobj, rd, snapshot, symbolic_obj
from symcore import CTX, EX
from pysym import Sym, T

def zmin(a, b): return z3.If(a < b, a, b)

def main():
    args = parse_args("C07"); ck = Check("C07", args.tier); thorough = args.tier == "thorough"
    ir = common.build_ir(["closest"]); mod = Module(); mod.load(ir["closest"])
    iro = common.build_ir(["closest"], openmp=True); modo = Module(); modo.load(iro["closest"])
    import ImageD11.indexing as IDX
    ck.encoded("src/closest.c:score_and_assign (sequential IR)", "src/closest.c:score_and_assign OpenMP outlined loop body (clang -fopenmp IR)",
               "ImageD11/indexing.py:myhistogram", "ImageD11/indexing.py:indexer.fight_over_peaks (real code, kernel replaced by its proved step specification)", "call protocol of indexer.fight_over_peaks / refinegrains.assignlabels (mirrored)")
    NG, NP = (3, 3) if thorough else (3, 2)
    ck.bound("step: 1 peak, arbitrary pre-state (labels[k], drlv2[k]), arbitrary label, tol, UBI, g",
             "composed: %d grains x %d peaks with free per-(grain,peak) hkl errors; all %d grain orders" % (NG, NP, len(list(itertools.permutations(range(NG))))),
             "threads: footprint query on two abstract iterations kA != kB of the parallel loop: no bound on ng, chunk size or thread count",
             "histogram: up to 3 peaks with symbolic integer labels in [-1, N-1], N <= 3")
    ck.assume("real-arithmetic model; rounding abstracted to 'a real within 1/2 of h' in the step harness",
              "composed harness: the per-peak error sumsq is cut to a free non-negative real S[grain][peak] at the store to the C local `sumsq` "
              "(that sumsq IS the hkl error is the step obligation and C06)",
              "tol in (0, 1/2]; initial drlv2 > tol^2 as set by fight_over_peaks (2) and assignlabels (1)",
              "OpenMP runtime contract: static schedule hands each iteration to exactly one thread; reduction(+:n) combined by the runtime; sequentially consistent memory")
    ck.trust("z3", "clang-14 lowering of the OpenMP pragma to __kmpc_* calls")

    # ------------------------------------------------------------------ step from an arbitrary pre-state
    def run_step():
        symcore.RNE_MODE[0] = "fresh"
        try:
            it = Interp(mod)
            U = [z3.Real("u%d" % i) for i in range(9)]; G = [z3.Real("g%d" % i) for i in range(3)]; tol = z3.Real("tol")
            d0 = z3.Real("d0"); l0 = z3.Int("l0"); label = z3.Int("label"); S = z3.Real("S")
            CTX.hyp += [tol > 0, l0 >= -1, l0 < 2 ** 31, label >= 0, label < 2 ** 31, S >= 0]
            uo = mkobj(it, "ubi", list(U), "double", "const"); go = mkobj(it, "gv", list(G), "double", "const")
            do = mkobj(it, "drlv2", [d0], "double", "inout"); lo = mkobj(it, "labels", [l0], "i32", "inout")
            seen = []
            def hook(it_, o, v): seen.append(v); return S          # cut: the C local sumsq becomes the free real S
            it.store_hooks = {"sumsq": hook}
            ret = it.call("score_and_assign", [Ptr(uo, 0), Ptr(go, 0), tol, Ptr(do, 0), Ptr(lo, 0), label, 1])
            d1 = symcore.to_real(rd(do, 0, 8)); l1 = rd(lo, 0, 4); l1 = l1 if isinstance(l1, z3.ExprRef) else z3.IntVal(l1)
            h = [sum(U[3 * j + m] * G[m] for m in range(3)) for j in range(3)]
            r = [None] * 3
            for j in range(3):
                for rr, x in CTX.rounded:
                    dd = z3.simplify(x - h[j], som=True)
                    if z3.is_rational_value(dd) and dd.numerator_as_long() == 0: r[j] = rr
            goals = [("no-memory-event", z3.BoolVal(not it.events)), ("rounding terms matched", z3.BoolVal(all(x is not None for x in r) and len(CTX.rounded) == 3)),
                     ("sumsq stored once per peak", z3.BoolVal(len(seen) == 1))]
            if all(x is not None for x in r) and len(seen) == 1:
                goals.append(("sumsq = |UBI.g - round(UBI.g)|^2", symcore.to_real(seen[0]) == sum((h[j] - r[j]) * (h[j] - r[j]) for j in range(3))))
            take = z3.And(S < tol * tol, S < d0)
            goals += [("drlv2' = s if take else drlv2", d1 == z3.If(take, S, d0)),
                      ("drlv2' = min(drlv2, s) when s indexes", z3.Implies(S < tol * tol, d1 == zmin(d0, S))),
                      ("labels' = label iff take; released only if it was ours", l1 == z3.If(take, label, z3.If(l0 == label, -1, l0))),
                      ("returned n = number of takes", z3.If(take, 1, 0) == ret)]
            inputs = {"u%d" % i: U[i] for i in range(9)}; inputs.update({"g%d" % i: G[i] for i in range(3)})
            inputs.update(tol=tol, d0=d0, l0=l0, label=label)
            return dict(goals=goals, inputs=inputs)
        finally: symcore.RNE_MODE[0] = "toint"
    def replay_step(vals, label_):
        ubi = [vals["u%d" % i] for i in range(9)]; gv = [vals["g%d" % i] for i in range(3)]
        bad = step_compare(ubi, gv, vals["tol"], vals["d0"], int(round(vals["l0"])), int(round(vals["label"])))
        if bad: return True, bad
        for b in step_family():
            bad = step_compare(*b)
            if bad: return True, bad
        return False, "step agrees with the definition at the model point and on the confirmation family"

    # ------------------------------------------------------------------ composed protocol with cut sumsq
    def mk_composed(ng, npk, orders, init):
        def run():
            symcore.RNE_MODE[0] = "fresh"
            try:
                S = [[z3.Real("S_%d_%d" % (g, k)) for k in range(npk)] for g in range(ng)]; tol = z3.Real("tol")
                CTX.hyp += [tol > 0, tol <= Fraction(1, 2)] + [S[g][k] >= 0 for g in range(ng) for k in range(npk)]
                results = []
                for order in orders:
                    it = Interp(mod)
                    go = mkobj(it, "gv", [z3.Real("gv%d" % i) for i in range(3 * npk)], "double", "const")
                    do = mkobj(it, "drlv2", [Fraction(init)] * npk, "double", "inout"); lo = mkobj(it, "labels", [-1] * npk, "i32", "inout")
                    rets = []
                    for pos, g in enumerate(order):
                        uo = mkobj(it, "ubi%d" % g, [z3.Real("u%d_%d" % (g, i)) for i in range(9)], "double", "const")
                        cnt = {"k": 0}
                        def hook(it_, o, v, g=g, cnt=cnt):
                            k = cnt["k"]; cnt["k"] += 1; return S[g][k]
                        it.store_hooks = {"sumsq": hook}
                        rets.append(it.call("score_and_assign", [Ptr(uo, 0), Ptr(go, 0), tol, Ptr(do, 0), Ptr(lo, 0), g, npk]))
                        if cnt["k"] != npk: raise RuntimeError("sumsq cut hit %d times" % cnt["k"])
                    results.append(dict(order=order, labels=[rd(lo, k, 4) for k in range(npk)], drlv2=[symcore.to_real(rd(do, k, 8)) for k in range(npk)], rets=rets, events=list(it.events)))
                goals = []; t2 = tol * tol
                for R in results:
                    order = R["order"]; tag = "order%s" % "".join(map(str, order))
                    goals.append(("%s no-memory-event" % tag, z3.BoolVal(not R["events"])))
                    for k in range(npk):
                        lab = R["labels"][k]; lab = lab if isinstance(lab, z3.ExprRef) else z3.IntVal(lab); d = R["drlv2"][k]
                        idx = [S[g][k] < t2 for g in range(ng)]
                        anyidx = z3.Or(idx)
                        best = None
                        for g in order: best = S[g][k] if best is None else best
                        mn = z3.RealVal(init)
                        for g in order: mn = z3.If(z3.And(S[g][k] < t2, S[g][k] < mn), S[g][k], mn)
                        goals.append(("%s peak%d unassigned iff no grain indexes it" % (tag, k), (lab == -1) == z3.Not(anyidx)))
                        goals.append(("%s peak%d stored error = min over indexing grains" % (tag, k), d == mn))
                        for g in range(ng):
                            others = [z3.Implies(idx[h], S[g][k] <= S[h][k]) for h in range(ng)]
                            goals.append(("%s peak%d label %d => grain %d indexes it with the smallest error" % (tag, k, g, g), z3.Implies(lab == g, z3.And(idx[g], d == S[g][k], *others))))
                            firstmin = z3.And(idx[g], *[z3.Implies(idx[h], (S[g][k] < S[h][k]) if order.index(h) < order.index(g) else (S[g][k] <= S[h][k])) for h in range(ng) if h != g])
                            goals.append(("%s peak%d first arg-min %d gets the label" % (tag, k, g), z3.Implies(firstmin, lab == g)))
                    # per-grain counts = histogram of the final labels (the real myhistogram on the path's labels when concrete)
                    labs = R["labels"]
                    if all(not isinstance(x, z3.ExprRef) for x in labs):
                        hst = IDX.myhistogram(np.array(labs, np.int32), np.arange(-0.5, ng - 0.99))
                        goals.append(("%s myhistogram(labels) = peaks per grain" % tag, z3.BoolVal(list(hst) == [labs.count(g) for g in range(ng)])))
                # order independence apart from exact ties
                base = results[0]
                for R in results[1:]:
                    for k in range(npk):
                        notie = z3.And([S[a][k] != S[b][k] for a in range(ng) for b in range(a + 1, ng)])
                        la, lb = base["labels"][k], R["labels"][k]
                        la = la if isinstance(la, z3.ExprRef) else z3.IntVal(la); lb = lb if isinstance(lb, z3.ExprRef) else z3.IntVal(lb)
                        goals.append(("order %s vs %s peak%d: same label unless tie" % (base["order"], R["order"], k), z3.Implies(notie, la == lb)))
                        goals.append(("order %s vs %s peak%d: same stored error" % (base["order"], R["order"], k), base["drlv2"][k] == R["drlv2"][k]))
                inputs = {"S_%d_%d" % (g, k): S[g][k] for g in range(ng) for k in range(npk)}; inputs["tol"] = tol
                return dict(goals=goals, inputs=inputs, ng=ng, npk=npk)
            finally: symcore.RNE_MODE[0] = "toint"
        return run
    def replay_composed(vals, label_):
        # realise the free errors S[g][k] with diagonal UBIs: peak k = (x_k, 0, 0) gives error frac(u_g * x_k)^2
        ng = 1 + max(int(k.split("_")[1]) for k in vals if k.startswith("S_")); npk = 1 + max(int(k.split("_")[2]) for k in vals if k.startswith("S_"))
        bad = composed_compare(ng, npk)
        return (True, bad) if bad else (False, "protocol agrees with the arg-min definition on the confirmation family")

    jobs = [("step", run_step, dict(replay=replay_step, timeout_ms=30000))]
    perms = list(itertools.permutations(range(NG)))
    jobs.append(("fight[%dx%d,init=2]" % (NG, NP), mk_composed(NG, NP, [tuple(range(NG))], 2), dict(replay=replay_composed, timeout_ms=30000, maxpaths=100000)))
    jobs.append(("assignlabels[2x2,init=1]", mk_composed(2, 2, [(0, 1)], 1), dict(replay=replay_composed, timeout_ms=30000)))
    for p in perms[1:]:
        jobs.append(("order[%dx1,%s]" % (NG, "".join(map(str, p))), mk_composed(NG, 1, [tuple(range(NG)), p], 2), dict(replay=replay_composed, timeout_ms=30000)))
    if thorough:
        jobs.append(("fight[4x2]", mk_composed(4, 2, [tuple(range(4))], 2), dict(replay=replay_composed, timeout_ms=30000, maxpaths=100000)))
    harness.run_parallel(ck, jobs)

    # ------------------------------------------------------------------ myhistogram with symbolic labels
    def run_hist(n, N):
        def run():
            L = [pysym.ivar("lab%d" % i) for i in range(n)]
            CTX.hyp += [z3.And(T(l) >= -1, T(l) <= N - 1) for l in L]
            with pysym.symbolize(IDX):
                hst = IDX.myhistogram(np.array(L, dtype=object), np.arange(-0.5, N - 0.99))
            goals = [("len", z3.BoolVal(len(hst) == N))]
            for g in range(N):
                want = sum([z3.If(T(l) == g, 1, 0) for l in L]) if n else z3.IntVal(0)
                got = hst[g]; got = T(got) if isinstance(got, Sym) else z3.IntVal(int(got))
                goals.append(("count[%d]" % g, symcore.to_real(got) == symcore.to_real(want)))
            return dict(goals=goals, inputs={"lab%d" % i: T(L[i]) for i in range(n)})
        return run
    def replay_hist(vals, label_):
        labs = np.array([int(round(vals[k])) for k in sorted(vals)], np.int32); N = 3
        for N in (1, 2, 3):
            if len(labs) and labs.max() > N - 1: continue
            hst = IDX.myhistogram(labs, np.arange(-0.5, N - 0.99))
            if list(hst) != [int((labs == g).sum()) for g in range(N)]: return True, "myhistogram(%s, N=%d) = %s" % (labs.tolist(), N, list(hst))
        return False, "histogram correct at the model point"
    for n, N in ((0, 1), (1, 2), (2, 2), (3, 3)) if thorough else ((0, 1), (2, 2), (3, 2)):
        harness.run_identities(ck, "myhistogram[n=%d,N=%d]" % (n, N), run_hist(n, N), replay_hist, 20000)

    # ------------------------------------------------------------------ the real Python driver indexer.fight_over_peaks
    def run_fight(ng, npk):
        def run():
            S = [[z3.Real("S_%d_%d" % (g, k)) for k in range(npk)] for g in range(ng)]; tol = z3.Real("tol")
            CTX.hyp += [tol > 0, tol <= Fraction(1, 2)] + [S[g][k] >= 0 for g in range(ng) for k in range(npk)]
            class KernelStub:                 # the step specification proved above against the real C (harness `step`)
                calls = 0
                @staticmethod
                def score_and_assign(ubi, gv, tol_, drlv2, labels, label):
                    g = int(ubi[0][0]); n = 0; KernelStub.calls += 1
                    for k in range(npk):
                        s = Sym(S[g][k]); take = (s < tol_ * tol_) & (s < drlv2[k])
                        mine = (labels[k] == label) if isinstance(labels[k], Sym) else bool(labels[k] == label)
                        labels[k] = pysym.ite(take, label, pysym.ite(mine, -1, labels[k]) if isinstance(mine, pysym.SymBool) else (-1 if mine else labels[k]))
                        drlv2[k] = pysym.ite(take, s, drlv2[k]); n = n + pysym.ite(take, 1, 0)
                    return n
            ix = object.__new__(IDX.indexer)
            ix.ubis = [np.eye(3) * g for g in range(ng)]; ix.gv = np.zeros((npk, 3)); ix.hkl_tol = Sym(tol)
            pysym.NP.INTS_AS_OBJECTS = True
            inputs = {"S_%d_%d" % (g, k): S[g][k] for g in range(ng) for k in range(npk)}; inputs["tol"] = tol
            try:
                with pysym.symbolize(IDX, extra=[(IDX, "cImageD11", KernelStub)]):
                    ix.fight_over_peaks()
            except (AssertionError, IndexError, ValueError, ZeroDivisionError) as e:      # the real driver raised on this path
                return dict(goals=[("fight_over_peaks returns normally (raised %s)" % type(e).__name__, z3.BoolVal(False))], inputs=inputs)
            finally: pysym.NP.INTS_AS_OBJECTS = False
            goals = [("one kernel call per grain", z3.BoolVal(KernelStub.calls == ng)), ("len(gas)=len(ubis)", z3.BoolVal(len(ix.gas) == ng))]
            t2 = tol * tol
            for k in range(npk):
                lab = symcore.to_real(T(ix.ga[k]) if isinstance(ix.ga[k], Sym) else z3.IntVal(int(ix.ga[k])))
                mn = z3.RealVal(2)
                for g in range(ng): mn = z3.If(z3.And(S[g][k] < t2, S[g][k] < mn), S[g][k], mn)
                goals.append(("peak%d error = min" % k, T(ix.drlv2[k]) == mn))
                goals.append(("peak%d unassigned iff none indexes" % k, (lab == -1) == z3.Not(z3.Or([S[g][k] < t2 for g in range(ng)]))))
                for g in range(ng):
                    goals.append(("peak%d label %d => smallest error" % (k, g), z3.Implies(lab == g, z3.And(S[g][k] < t2, *[z3.Implies(S[h][k] < t2, S[g][k] <= S[h][k]) for h in range(ng)]))))
            for g in range(ng):
                cnt = sum([z3.If(symcore.to_real(T(ix.ga[k]) if isinstance(ix.ga[k], Sym) else z3.IntVal(int(ix.ga[k]))) == g, 1, 0) for k in range(npk)])
                got = ix.gas[g]; got = T(got) if isinstance(got, Sym) else z3.IntVal(int(got))
                goals.append(("gas[%d] = #peaks labelled %d" % (g, g), symcore.to_real(got) == symcore.to_real(cnt)))
            inputs = {"S_%d_%d" % (g, k): S[g][k] for g in range(ng) for k in range(npk)}; inputs["tol"] = tol
            return dict(goals=goals, inputs=inputs)
        return run
    def replay_fight(vals, label_):
        # concrete run of the real indexer.fight_over_peaks with the real compiled kernel semantics (ctypes build)
        ng = 1 + max(int(k.split("_")[1]) for k in vals if k.startswith("S_")); npk = 1 + max(int(k.split("_")[2]) for k in vals if k.startswith("S_"))
        class K:
            @staticmethod
            def score_and_assign(ubi, gv, tol, drlv2, labels, label):
                n, d, l = creplay.score_and_assign(ubi, gv, tol, drlv2, labels, label); drlv2[:] = d; labels[:] = l; return n
        rng = np.random.RandomState(common.SEED + 11)
        for trial in range(64):
            ix = object.__new__(IDX.indexer); us = 4.0 + 0.02 * rng.standard_normal(ng) * (1 + trial % 3)
            if trial % 2: us = us[::-1].copy(); us[0] = 4.0 + 0.03
            if trial >= 60: us[-1 if trial % 2 else 0] = 4.7         # a grain that indexes nothing (last / first in the list)
            x = (rng.randint(1, 4, max(npk, 4)) + 0.02 * rng.standard_normal(max(npk, 4))) / 4.0
            ix.ubis = [np.eye(3) * u for u in us]; ix.gv = np.zeros((len(x), 3)); ix.gv[:, 0] = x; ix.hkl_tol = 0.1
            try:
                with pysym.patched((IDX, "cImageD11", K)): ix.fight_over_peaks()
            except Exception as e:
                return True, "fight_over_peaks raised %s: %s (grains u=%s, peaks x=%s)" % (type(e).__name__, e, us.tolist(), x.tolist())
            want = [int((ix.ga == g).sum()) for g in range(ng)]
            if list(ix.gas) != want: return True, "fight_over_peaks: gas=%s but labels %s give counts %s (grains u=%s, peaks x=%s)" % (list(ix.gas), ix.ga.tolist(), want, us.tolist(), x.tolist())
        return False, "driver agrees with the histogram of its labels on the confirmation family"
    harness.run_parallel(ck, [("fight_over_peaks(python)[3x2]", run_fight(3, 2), dict(replay=replay_fight, timeout_ms=30000))] +
                         ([("fight_over_peaks(python)[2x3]", run_fight(2, 3), dict(replay=replay_fight, timeout_ms=30000, maxpaths=50000))] if thorough else []))

    # ------------------------------------------------------------------ threads: footprint of the parallel loop
    def setup(it):
        kA, kB, ng = z3.Int("kA"), z3.Int("kB"), z3.Int("ng")
        it.omp_iters = (kA, kB); CTX.hyp += [kA >= 0, kB >= 0, kA < ng, kB < ng, ng <= 2 ** 30]
        return [Ptr(symbolic_obj(it, "ubi", "sharedro"), 0), Ptr(symbolic_obj(it, "gv", "sharedro"), 0), z3.Real("tol"),
                Ptr(symbolic_obj(it, "drlv2"), 0), Ptr(symbolic_obj(it, "labels"), 0), z3.Int("label"), ng]
    symcore.RNE_MODE[0] = "fresh"; llsym.MULMODE[0] = "uf"     # the footprint only depends on addresses: products are abstracted
    try: npaths, nq, conflicts, shared = llsym.footprint(modo, "score_and_assign", setup, iter_steps=1500)      # one iteration of the unchanged loop is ~300 instructions
    finally: symcore.RNE_MODE[0] = "toint"; llsym.MULMODE[0] = "nra"
    ck.path("footprint", n=npaths)
    ck.extra["footprint"] = dict(path_pairs=npaths, alias_queries=nq, conflicts=len(conflicts), shared_accesses_per_iteration=[str(x) for x in shared][:30])
    if npaths == 0: ck.vacuity_fail("footprint: parallel region of score_and_assign not reached")
    else: ck.vacuity_ok("footprint: %d path pairs of two iterations" % npaths)
    trunc = getattr(llsym.footprint, "truncated", 0)
    if trunc: ck.notes.append("footprint: %d path pairs had an abstract iteration cut at its instruction budget (inner loop with a symbolic trip count): only the accesses seen before the cut were compared" % trunc)
    if not conflicts and trunc:
        ck.undecided("footprint: iterations kA != kB of the parallel loop touch disjoint memory", "an abstract iteration did not finish within its instruction budget on %d of %d path pairs and no conflict was seen in the explored part" % (trunc, npaths))
    elif not conflicts:
        ck.ok("footprint: iterations kA != kB of the parallel loop touch disjoint memory (=> any schedule equals the sequential result)", "%d alias queries unsat" % nq)
    else:
        # replay: run the real OpenMP build with many threads against 1 thread
        bad = thread_compare()
        desc = "; ".join("%s: line %s %s vs line %s %s" % (c[0], c[1][0], c[1][1], c[2][0], c[2][1]) if c[1] else c[0] for c in conflicts[:4])
        if bad: ck.violation("score_and_assign result depends on the thread count: %s [model: two iterations conflict on %s]" % (bad, desc), "closest.c:score_and_assign:data-race", dict(conflicts=[str(c) for c in conflicts[:10]]))
        else: ck.not_reproduced("footprint conflict (%s) but 1-thread and 16-thread runs of the real build agree" % desc)
    ck.sample(dict(harness="footprint", shared=[str(x) for x in shared][:12]))

    ck.finish("One call of the real score_and_assign from an arbitrary symbolic pre-state implements the min-update step; grain sequences "
              "following the fight_over_peaks/assignlabels protocol (free per-grain-per-peak errors) end with label = first arg-min among "
              "indexing grains, -1 if none, stored error = that minimum, for every grain order, order-independent apart from exact ties; "
              "myhistogram = per-label counts for symbolic labels; the OpenMP loop body's iterations touch disjoint memory (alias queries, "
              "unbounded in ng and threads).")

# ---------------------------------------------------------------------------------------------------- concrete confirmation on the real build
def step_ref(ubi, gv, tol, d0, l0, label):
    ubi = np.array(ubi, float).reshape(3, 3); g = np.array(gv, float)
    h = ubi @ g; t = h - np.rint(h); s = float((t * t).sum())
    take = s < tol * tol and s < d0
    return (1 if take else 0), (s if take else d0), (label if take else (-1 if l0 == label else l0)), s
def step_compare(ubi, gv, tol, d0, l0, label):
    n, d1, l1, s = step_ref(ubi, gv, tol, d0, l0, label)
    if abs(s - tol * tol) < 1e-9 or abs(s - d0) < 1e-9: return None
    gn, gd, gl = creplay.score_and_assign(ubi, np.array(gv, float).reshape(1, 3), tol, [d0], [l0], label)
    if gn != n or gl[0] != l1 or not harness.close(gd[0], d1, 1e-9, 1e-12):
        return "score_and_assign(ubi=%s, g=%s, tol=%r, drlv2=%r, labels=%d, label=%d) -> n=%d drlv2=%r label=%d, definition n=%d drlv2=%r label=%d" % (
            list(ubi), list(gv), tol, d0, l0, label, gn, gd[0], gl[0], n, d1, l1)
    return None
def step_family():
    I = [4.0, 0, 0, 0, 4.0, 0, 0, 0, 4.0]
    for g in ([0.25, 0.5, 0.0], [0.26, 0.5, 0.0], [0.30, 0.0, 0.0]):
        for d0 in (2.0, 1e-3, 1e-6, 0.05):
            for l0 in (-1, 0, 3):
                for label in (0, 3):
                    yield I, g, 0.1, d0, l0, label
def composed_compare(ng, npk):
    rng = np.random.RandomState(common.SEED + 5)
    for trial in range(40):
        us = 4.0 + 0.02 * rng.standard_normal(ng) * (trial % 4); x = (rng.randint(1, 4, npk) + 0.03 * rng.standard_normal(npk)) / 4.0
        if trial % 5 == 0: us[-1] = us[0]          # exact tie between two grains
        gv = np.zeros((npk, 3)); gv[:, 0] = x
        for order in itertools.permutations(range(ng)):
            dr = np.full(npk, 2.0); lab = np.full(npk, -1, np.int32); tol = 0.1
            for g in order:
                n, dr, lab = creplay.score_and_assign(np.eye(3) * us[g], gv, tol, dr, lab, g)
            for k in range(npk):
                S = [(us[g] * x[k] - np.rint(us[g] * x[k])) ** 2 for g in range(ng)]
                idx = [g for g in order if S[g] < tol * tol]
                if any(abs(S[g] - tol * tol) < 1e-12 for g in range(ng)): continue
                want = -1; best = 2.0
                for g in order:
                    if S[g] < tol * tol and S[g] < best: best = S[g]; want = g
                if lab[k] != want or not harness.close(dr[k], best, 1e-9, 1e-15):
                    return "grains u=%s order %s peak x=%r: label %d drlv2 %r, definition label %d drlv2 %r" % (us.tolist(), order, x[k], lab[k], dr[k], want, best)
    return None
def thread_compare():
    import ctypes as C
    L = creplay.lib(); rng = np.random.RandomState(1)
    n = 3 * 4096 + 17; gv = rng.standard_normal((n, 3)) * 0.5; ubi = np.eye(3) * 3.1
    try: setn = L.cimaged11_omp_set_num_threads
    except AttributeError: setn = None
    outs = []
    for nt in (1, 16, 7, 16, 16):
        if setn is not None: setn(C.c_int(nt))
        for rep in range(6):
            r = creplay.score_and_assign(ubi, gv, 0.3, np.full(n, 2.0), np.full(n, -1, np.int32), 0, L)
            outs.append((nt, r))
    n0, d0, l0 = outs[0][1]
    for nt, (n1, d1, l1) in outs[1:]:
        if n1 != n0 or not np.array_equal(d1, d0) or not np.array_equal(l1, l0):
            return "%d threads: %d peaks differ from the 1-thread result (n=%d vs %d)" % (nt, int((l1 != l0).sum() + (d1 != d0).sum()), n1, n0)
    return None

if __name__ == "__main__":
    common.run_main(main)
