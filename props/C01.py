"""
C01 - pixel -> g-vector geometry agrees across the Python reference, the compiled fast path and the numba copy.
Decided by: llsym execution of compute_xlylzl / compute_gv / compute_geometry from clang IR and pysym execution of the real
transform.py functions, Ctransform packing, columnfile.updateGeometry plumbing and the numba copies (py_func) in ONE shared
trig/sqrt context; the equalities are z3 NRA validity queries, staged at the cut points o (grain origin), d (peak - origin),
k (scattering vector), g (DESIGN 2.6) - for ALL parameter values, per peak.
"""
import sys, os, itertools
sys.path.insert(0, os.path.join(os.path.dirname(os.path.abspath(__file__)), "..", "lib"))
import z3, numpy as np
from fractions import Fraction
import common, symcore, pysym, harness, llsym
from common import Check, parse_args
from llsym import Module, Interp, Ptr, mkobj, outobj, rd, snapshot
from pysym import Sym, T, var, symbolize
from symcore import CTX, EX, to_real

PNAMES = ("y_center", "z_center", "y_size", "z_size", "distance", "tilt_x", "tilt_y", "tilt_z", "o11", "o12", "o21", "o22", "wedge", "chi", "wavelength", "t_x", "t_y", "t_z")
def pyf(f): return getattr(f, "py_func", f)
def arr(*xs): return np.array(list(xs), dtype=object)

def atan2_parts(t):
    """k*atan2(y,x) -> (k, y, x)"""
    t = z3.simplify(t)
    if z3.is_app(t) and t.decl().name() == "atan2": return Fraction(1), t.arg(0), t.arg(1)
    if z3.is_mul(t) and t.num_args() == 2 and z3.is_rational_value(t.arg(0)) and z3.is_app(t.arg(1)) and t.arg(1).decl().name() == "atan2":
        return Fraction(t.arg(0).numerator_as_long(), t.arg(0).denominator_as_long()), t.arg(1).arg(0), t.arg(1).arg(1)
    return None

# ------------------------------------------------------------------------------------------------ stage proofs for one kernel / omegasign, per Python path
def make_kernel_run(TR, mod, kernel, osign):
    def run():
        P = {n: var(n) for n in ("wedge", "chi", "wavelength", "t_x", "t_y", "t_z")}
        xl, yl, zl, omega = var("xl"), var("yl"), var("zl"), var("omega")
        with symbolize(TR):
            xyz = np.array([[xl], [yl], [zl]], dtype=object); om = arr(omega) * float(osign)
            o_py = TR.compute_grain_origins(om, wedge=P["wedge"], chi=P["chi"], t_x=P["t_x"], t_y=P["t_y"], t_z=P["t_z"])
            # the Python route end to end once (this decides the on/off branches t == 0, wedge != 0, chi != 0 of the path)
            tth, eta = TR.compute_tth_eta_from_xyz(xyz, om, **P)
            # stage k: d abstracted to fresh D ; stage g: k abstracted to fresh K   (the next function is CALLED on fresh symbols)
            Df = np.array([[var("D0")], [var("D1")], [var("D2")]], dtype=object)
            tthD, etaD = TR.compute_tth_eta_from_xyz(Df, None)
            k_pyD = TR.compute_k_vectors(tthD, etaD, P["wavelength"])
            Kf = np.array([[var("K0")], [var("K1")], [var("K2")]], dtype=object)
            g_pyK = TR.compute_g_from_k(Kf, om, P["wedge"], P["chi"])
        it = Interp(mod); it.assume_fdiv_nonzero = True
        xo = mkobj(it, "xyz", [xl.t, yl.t, zl.t], "double", "const"); oo = mkobj(it, "omega", [omega.t], "double", "const")
        to = mkobj(it, "t", [P["t_x"].t, P["t_y"].t, P["t_z"].t], "double", "const")
        ncol = 3 if kernel == "compute_gv" else 6
        out = outobj(it, "out", ncol, "double")
        it.call(kernel, [Ptr(xo, 0), Ptr(oo, 0), Fraction(osign), P["wavelength"].t, P["wedge"].t, P["chi"].t, Ptr(to, 0), Ptr(out, 0), 1])
        loc = it.lastframe
        rdv = lambda ob, n: [to_real(ob.mem[8 * i][0]) for i in range(n)]
        res = dict(o_c=rdv(loc["o"], 3), d_c=rdv(loc["d"], 3), k_c=rdv(loc["k"], 3), out=rdv(out, ncol), o_py=[T(o_py[i, 0]) for i in range(3)],
                   k_py=[T(k_pyD[i, 0]) for i in range(3)], g_py=[T(g_pyK[i, 0]) for i in range(3)], tthD=T(tthD[0]), etaD=T(etaD[0]),
                   lam=P["wavelength"].t, events=list(it.events), kernel=kernel, inputs={n: v.t for n, v in P.items()})
        res["inputs"].update(xl=xl.t, yl=yl.t, zl=zl.t, omega=omega.t)
        return res
    return run

def on_kernel_path(kernel, osign, tmo, part=0, nparts=1):
    def f(R, pc, hyp, taken, status):
        if R is None: return dict(bad=["path ended: " + status], stats=[], key=str(taken))
        K = [z3.Real("K%d" % i) for i in range(3)]; Dv = [z3.Real("D%d" % i) for i in range(3)]
        sub_d = [(R["d_c"][i], Dv[i]) for i in range(3)]; sub_k = [(R["k_c"][i], K[i]) for i in range(3)]
        hypD = [z3.substitute(h, *sub_d) for h in hyp]          # the sqrt definitions mention d_c too
        pre = [R["lam"] > 0, Dv[1] * Dv[1] + Dv[2] * Dv[2] > 0]
        stats = []; bad = []; cex = None; counter = [0]
        def prove(name, hyps, goal):
            nonlocal cex
            counter[0] += 1
            if (counter[0] - 1) % nparts != part: return "skipped"
            r, m = common.solve(harness.cone(list(hyps), goal) + [z3.Not(goal)], tmo, want_model=True)
            stats.append((name, r))
            if r == "sat": bad.append(name); cex = cex or m
            return r
        if R["events"]: bad.append("memory events %s" % R["events"][:2])
        base = list(hyp) + list(pc)
        for i in range(3): prove("o[%d]: C grain origin = compute_grain_origins" % i, base, R["o_c"][i] == R["o_py"][i])
        kcD = [z3.substitute(R["k_c"][i], *sub_d) for i in range(3)]
        for i in range(3): prove("k[%d] | d: C scattering vector = compute_k_vectors(compute_tth_eta_from_xyz(d))" % i, hypD + list(pc) + pre, kcD[i] == R["k_py"][i])
        gcol = (0, 1, 2) if kernel == "compute_gv" else (3, 4, 5)
        for n_, i in enumerate(gcol):
            gc = z3.substitute(R["out"][i], *sub_k)
            prove("g[%d] | k: C g-vector = compute_g_from_k(k)" % n_, base, gc == R["g_py"][n_])
        if kernel == "compute_geometry":
            for col, nm, pyt in ((0, "tth", R["tthD"]), (1, "eta", R["etaD"])):
                ct = z3.substitute(R["out"][col], *sub_d); a = atan2_parts(ct); b = atan2_parts(pyt)
                if a is None or b is None: bad.append("%s is not a multiple of atan2 (%s)" % (nm, "C" if a is None else "Python")); continue
                prove("%s | d: same atan2 arguments and degree factor" % nm, hypD + list(pc) + pre, z3.And(z3.RealVal(a[0]) == z3.RealVal(b[0]), a[1] == b[1], a[2] == b[2]))
            ds = z3.substitute(R["out"][2], *sub_k)
            prove("ds | k: ds^2 = |k|^2 (= |g|^2, rotation) and ds >= 0", [z3.substitute(h, *sub_k) for h in hyp] + list(pc), z3.And(ds * ds == K[0] * K[0] + K[1] * K[1] + K[2] * K[2], ds >= 0))
            prove("|g|^2 = |k|^2 (Python rotation preserves length)", base, sum(x * x for x in R["g_py"]) == K[0] * K[0] + K[1] * K[1] + K[2] * K[2])
        out = dict(bad=bad, stats=stats, key="%s%+d:%s" % (kernel, osign, "".join("T" if d else "F" for d in taken)), part=part)
        if cex is not None: out["vals"] = {k: _mf(cex, v) for k, v in R["inputs"].items()}
        return out
    return f
def _mf(m, t):
    try: return pysym.model_float(m, t)
    except Exception: return 0.0

# ------------------------------------------------------------------------------------------------ replay on the real build
def replay_kernels(vals=None):
    """Ctransform fast route (rebuilt C through ctypes) against the Python reference on a sweep around the model point"""
    import ctypes as C, creplay
    import ImageD11.transform as TR
    L = creplay.lib(); rng = np.random.RandomState(common.SEED + 3)
    base = dict(y_center=1000.0, z_center=1100.0, y_size=0.05, z_size=-0.045, distance=200.0, tilt_x=0.01, tilt_y=-0.02, tilt_z=0.03, wavelength=0.3)
    for o11, o12, o21, o22 in ((1, 0, 0, -1), (0, 1, -1, 0), (0, -1, 1, 0), (-1, 0, 0, 1), (0, 1, 1, 0)):
        for wedge, chi in ((0.0, 0.0), (5.0, 0.0), (0.0, -7.0), (10.0, 15.0)):
            for osign in (1.0, -1.0):
                for t in ((0.0, 0.0, 0.0), (0.1, -0.2, 0.05)):
                    p = dict(base, o11=o11, o12=o12, o21=o21, o22=o22, wedge=wedge, chi=chi, omegasign=osign, t_x=t[0], t_y=t[1], t_z=t[2])
                    sc = rng.uniform(0, 2048, 6); fc = rng.uniform(0, 2048, 6); om = rng.uniform(-180, 180, 6)
                    ct = TR.Ctransform(p)
                    xyz = np.empty((6, 3)); L.compute_xlylzl(creplay.dptr(np.ascontiguousarray(sc)), creplay.dptr(np.ascontiguousarray(fc)), creplay.dptr(np.ascontiguousarray(ct.cen, float)), creplay.dptr(np.ascontiguousarray(ct.rmat, float)), creplay.dptr(np.ascontiguousarray(ct.distance_vec, float)), creplay.dptr(xyz), 6)
                    ref = TR.compute_xyz_lab([sc, fc], **p).T
                    if not np.allclose(xyz, ref, rtol=1e-9, atol=1e-9): return "fast xl,yl,zl differ from compute_xyz_lab for flip (%d,%d,%d,%d): %s vs %s" % (o11, o12, o21, o22, xyz[0].tolist(), ref[0].tolist())
                    tarr = np.array(t); gv = np.empty((6, 3)); geo = np.empty((6, 6))
                    L.compute_gv(creplay.dptr(xyz), creplay.dptr(np.ascontiguousarray(om)), C.c_double(osign), C.c_double(p["wavelength"]), C.c_double(wedge), C.c_double(chi), creplay.dptr(tarr), creplay.dptr(gv), 6)
                    L.compute_geometry(creplay.dptr(xyz), creplay.dptr(np.ascontiguousarray(om)), C.c_double(osign), C.c_double(p["wavelength"]), C.c_double(wedge), C.c_double(chi), creplay.dptr(tarr), creplay.dptr(geo), 6)
                    tth, eta = TR.compute_tth_eta_from_xyz(ref.T, om * osign, **p); g = TR.compute_g_vectors(tth, eta, om * osign, p["wavelength"], wedge, chi).T
                    if not np.allclose(gv, g, rtol=1e-8, atol=1e-10): return "compute_gv differs from the Python reference (wedge=%g chi=%g omegasign=%g t=%s): %s vs %s" % (wedge, chi, osign, t, gv[0].tolist(), g[0].tolist())
                    if not (np.allclose(geo[:, 3:], g, rtol=1e-8, atol=1e-10) and np.allclose(geo[:, 0], tth, atol=1e-8) and np.allclose(geo[:, 1], eta, atol=1e-8) and np.allclose(geo[:, 2], np.sqrt((g * g).sum(1)), rtol=1e-8)):
                        return "compute_geometry differs from the Python reference (wedge=%g chi=%g omegasign=%g t=%s): tth,eta,ds,g = %s vs %s" % (wedge, chi, osign, t, geo[0].tolist(), [tth[0], eta[0], float(np.sqrt((g[0] * g[0]).sum()))] + g[0].tolist())
    return None

# ------------------------------------------------------------------------------------------------ other harnesses (single functions run through run_identities)
def main():
    args = parse_args("C01"); ck = Check("C01", args.tier); thorough = args.tier == "thorough"
    symcore.Explorer.lazy = True            # the on/off tests (t_x == 0, wedge != 0, chi != 0) only involve free parameters
    ir = common.build_ir(["cdiffraction"]); mod = Module(); mod.load(ir["cdiffraction"])
    import ImageD11.transform as TR, ImageD11.sinograms.point_by_point as PB, ImageD11.columnfile as CF, ImageD11.parameters as PA
    ck.encoded("src/cdiffraction.c:compute_xlylzl, compute_gv, compute_geometry (clang IR)", "ImageD11/transform.py:detector_rotation_matrix, compute_xyz_lab, compute_tth_eta_from_xyz, compute_grain_origins, compute_k_vectors, compute_g_from_k, compute_g_vectors, Ctransform.__init__/reset/sf2xyz/xyz2gv/xyz2geometry",
               "ImageD11/columnfile.py:columnfile.updateGeometry (fast and slow plumbing)", "ImageD11/sinograms/point_by_point.py:detector_rotation_matrix, compute_grain_origins, compute_xyz_lab, compute_tth_eta_from_xyz, compute_k_vectors, compute_g_from_k (numba py_func)",
               "ImageD11/refinegrains.py:refinegrains.compute_gv (source pattern: om * sign)")
    ck.bound("one peak per query (the kernels are per-peak loops); every parameter a free real; omegasign in {+1, -1}; all on/off combinations of translation, wedge and chi are paths of the Python reference",
             "stage k is proved for every peak-minus-origin vector d not on the beam axis (d1^2 + d2^2 > 0) and wavelength > 0")
    ck.assume("real-arithmetic model (IEEE rounding outside the claim)", "sin/cos as constrained pairs shared by both routes, atan2 / half-angle axioms, sqrt by its defining equation, pi = the rational value of the double (DESIGN 2.8)",
              "cut-point staging: the equalities at o, k|d, g|k compose by congruence to the end-to-end equality", "the divisions of the kernels (by |d| and by the wavelength) are by non-zero values")
    tmo = 120000 if thorough else 60000
    # ---- compute_gv / compute_geometry, both omega signs
    NPARTS = 4
    kjobs = [("%s[omegasign %+d]#%d" % (kernel, osign, part), make_kernel_run(TR, mod, kernel, osign), on_kernel_path(kernel, osign, tmo, part, NPARTS))
             for kernel in ("compute_gv", "compute_geometry") for osign in (-1, 1) for part in range(NPARTS)]
    kres0 = harness.par_paths_multi(ck, kjobs, depth=4, timeout_ms=30000)
    kres = {}
    for tag, outs in kres0.items():            # merge the obligation parts of each path again
        name = tag.split("#")[0]; d = kres.setdefault(name, {})
        for o in outs:
            e = d.setdefault(o["key"], dict(bad=[], stats=[], key=o["key"]))
            e["bad"] += o["bad"]; e["stats"] += o["stats"]
            if "vals" in o: e["vals"] = o["vals"]
    kres = {k: list(v.values()) for k, v in kres.items()}
    for name, outs in kres.items():
        kernel = name.split("[")[0]
        ck.path(None, n=len(outs))
        for o in outs:
            ck.path(o["key"], n=0)
            for nm, r in o["stats"]:
                oname = "%s/%s@%s" % (name, nm, o["key"].split(":")[-1]); common.STATS.queries += 1
                if r == "unsat": ck.ok(oname)
                elif r == "unknown": ck.undecided(oname, "solver unknown / timeout")
        badp = [o for o in outs if o["bad"]]
        if len(outs) != 16: ck.inconclusive.append("%s: %d Python paths explored, expected 16 on/off combinations" % (name, len(outs)))
        if badp:
            msg = replay_kernels(badp[0].get("vals"))
            if msg: ck.violation("%s: %s [model: %s]" % (name, msg, badp[0]["bad"][:2]), "geometry:%s" % kernel, dict(model=badp[0].get("vals"), failed=badp[0]["bad"]))
            else: ck.not_reproduced("%s: model says %s" % (name, badp[0]["bad"][:3]))
        ck.sample(dict(harness=name, paths=len(outs), stages=[s[0] for s in outs[0]["stats"]][:6] if outs else None))
    # ---- xl, yl, zl: C kernel with the REAL Ctransform packing vs compute_xyz_lab vs the numba copy; Ctransform argument plumbing
    def run_xyz():
        p = {n: var(n) for n in PNAMES}; p["omegasign"] = 1.0
        sc, fc = var("sc"), var("fc")
        captured = {}
        class KStub:                      # stands for ImageD11.cImageD11 inside transform.py: records what the Python side hands to the kernels
            @staticmethod
            def compute_xlylzl(s, f, cen, rmat, dist, out):
                it = Interp(mod)
                so = mkobj(it, "s", [T(s[0])], "double", "const"); fo = mkobj(it, "f", [T(f[0])], "double", "const"); po = mkobj(it, "p", [T(x) for x in cen], "double", "const")
                ro = mkobj(it, "r", [T(x) for x in rmat], "double", "const"); do = mkobj(it, "dist", [T(x) for x in dist], "double", "const"); oo = outobj(it, "xlylzl", 3, "double")
                it.call("compute_xlylzl", [Ptr(so, 0), Ptr(fo, 0), Ptr(po, 0), Ptr(ro, 0), Ptr(do, 0), Ptr(oo, 0), 1])
                for j in range(3): out[0, j] = Sym(to_real(rd(oo, j)))
                captured["events"] = list(it.events)
            @staticmethod
            def compute_gv(xyz, omega, osign, wvln, wedge, chi, t, out): captured["gv"] = (osign, wvln, wedge, chi, list(t)); out[...] = 0.0
            @staticmethod
            def compute_geometry(xyz, omega, osign, wvln, wedge, chi, t, out): captured["geo"] = (osign, wvln, wedge, chi, list(t)); out[...] = 0.0
        with symbolize(TR, extra=[(TR, "cImageD11", KStub)]), symbolize(PB):
            ct = TR.Ctransform(p)
            xyz_fast = ct.sf2xyz(arr(sc), arr(fc))
            ct.xyz2gv(xyz_fast, arr(var("omega")), p["t_x"], p["t_y"], p["t_z"]); ct.xyz2geometry(xyz_fast, arr(var("omega")), p["t_x"], p["t_y"], p["t_z"])
            kw = {k: p[k] for k in ("y_center", "y_size", "tilt_y", "z_center", "z_size", "tilt_z", "tilt_x", "distance", "o11", "o12", "o21", "o22")}
            ref = TR.compute_xyz_lab(np.array([[sc], [fc]], dtype=object), **kw)
            with pysym.patched(*pysym.pyfuncs(PB)):
                nb = pyf(PB.compute_xyz_lab)(arr(sc), arr(fc), **kw)
                dm_nb = pyf(PB.detector_rotation_matrix)(p["tilt_x"], p["tilt_y"], p["tilt_z"])
            dm = TR.detector_rotation_matrix(p["tilt_x"], p["tilt_y"], p["tilt_z"])
        goals = [("no-memory-event", z3.BoolVal(not captured.get("events")))]
        for j, nm in enumerate(("xl", "yl", "zl")):
            goals.append(("fast %s (C kernel + Ctransform packing) = compute_xyz_lab" % nm, T(xyz_fast[0, j]) == T(ref[j, 0])))
            goals.append(("numba compute_xyz_lab %s = transform.compute_xyz_lab" % nm, T(nb[j, 0]) == T(ref[j, 0])))
        goals += [("numba detector_rotation_matrix[%d%d]" % (i, j), T(dm_nb[i, j]) == T(dm[i, j])) for i in range(3) for j in range(3)]
        for key in ("gv", "geo"):
            osg, wv, we, ch, tt = captured[key]
            goals.append(("Ctransform hands (omegasign, wavelength, wedge, chi, t) to %s" % ("compute_gv" if key == "gv" else "compute_geometry"),
                          z3.And(z3.BoolVal(osg == 1.0), T(wv) == p["wavelength"].t, T(we) == p["wedge"].t, T(ch) == p["chi"].t, T(tt[0]) == p["t_x"].t, T(tt[1]) == p["t_y"].t, T(tt[2]) == p["t_z"].t)))
        return dict(goals=goals, inputs={n: v.t for n, v in p.items() if isinstance(v, Sym)})
    def replay_numba_xyz(vals):
        """the numba copy of compute_xyz_lab / detector_rotation_matrix (python body and compiled) against transform.py at the model point and over all 8 flips"""
        DK = ("y_center", "y_size", "tilt_y", "z_center", "z_size", "tilt_z", "tilt_x", "distance", "o11", "o12", "o21", "o22")
        pts = []
        if vals and all(vals.get(k) is not None for k in DK): pts.append({k: float(vals[k]) for k in DK})
        base = dict(y_center=1000.0, z_center=1100.0, y_size=0.05, z_size=-0.045, distance=200.0, tilt_x=0.01, tilt_y=-0.02, tilt_z=0.03)
        for fl in ((1, 0, 0, 1), (1, 0, 0, -1), (-1, 0, 0, 1), (-1, 0, 0, -1), (0, 1, 1, 0), (0, 1, -1, 0), (0, -1, 1, 0), (0, -1, -1, 0)):
            pts.append(dict(base, o11=float(fl[0]), o12=float(fl[1]), o21=float(fl[2]), o22=float(fl[3])))
        sc = np.array([10.0, 700.5, 2000.0]); fc = np.array([1500.0, 33.25, 1024.0])
        for q in pts:
            ref = TR.compute_xyz_lab([sc, fc], **q)
            for tag, f in (("python body", pyf(PB.compute_xyz_lab)), ("compiled", PB.compute_xyz_lab)):
                try: got = f(sc.copy(), fc.copy(), **q)
                except Exception as e: return "numba compute_xyz_lab (%s) raised %s: %s" % (tag, type(e).__name__, str(e)[:100])
                if not np.allclose(got, ref, rtol=1e-9, atol=1e-9 * (1 + np.abs(ref).max())):
                    return "point_by_point.compute_xyz_lab (%s) differs from transform.compute_xyz_lab for flip (%g,%g,%g,%g), tilts (%g,%g,%g): %s vs %s" % (tag, q["o11"], q["o12"], q["o21"], q["o22"], q["tilt_x"], q["tilt_y"], q["tilt_z"], np.asarray(got)[:, 0].tolist(), ref[:, 0].tolist())
            d1 = TR.detector_rotation_matrix(q["tilt_x"], q["tilt_y"], q["tilt_z"]); d2 = pyf(PB.detector_rotation_matrix)(q["tilt_x"], q["tilt_y"], q["tilt_z"])
            if not np.allclose(d1, d2, atol=1e-12): return "point_by_point.detector_rotation_matrix differs from transform.py for tilts (%g,%g,%g)" % (q["tilt_x"], q["tilt_y"], q["tilt_z"])
        return None
    def replay_any(vals, label):
        if "numba" in label:
            msg = replay_numba_xyz(vals); return (msg is not None), (msg or "numba copies of compute_xyz_lab / detector_rotation_matrix agree with transform.py at the model point and on all 8 flips")
        msg = replay_kernels(vals); return (msg is not None), (msg or "fast route agrees with the reference on the confirmation sweep")
    # ---- numba copies of the per-peak formulas = transform.py, path by path
    def run_numba():
        P = {n: var(n) for n in ("wedge", "chi", "wavelength", "t_x", "t_y", "t_z")}
        xyz = np.array([[var("xl")], [var("yl")], [var("zl")]], dtype=object); om = arr(var("omega"))
        with symbolize(TR), symbolize(PB), pysym.patched(*pysym.pyfuncs(PB)):
            a = TR.compute_grain_origins(om, P["wedge"], P["chi"], P["t_x"], P["t_y"], P["t_z"]); b = pyf(PB.compute_grain_origins)(om, P["wedge"], P["chi"], P["t_x"], P["t_y"], P["t_z"])
            t1, e1 = TR.compute_tth_eta_from_xyz(xyz, om, t_x=P["t_x"], t_y=P["t_y"], t_z=P["t_z"], wedge=P["wedge"], chi=P["chi"])
            t2, e2 = pyf(PB.compute_tth_eta_from_xyz)(xyz, om, t_x=P["t_x"], t_y=P["t_y"], t_z=P["t_z"], wedge=P["wedge"], chi=P["chi"])
            tt, ee = arr(var("tth")), arr(var("eta"))
            k1 = TR.compute_k_vectors(tt, ee, P["wavelength"]); k2 = pyf(PB.compute_k_vectors)(tt, ee, P["wavelength"])
            Kf = np.array([[var("K0")], [var("K1")], [var("K2")]], dtype=object)
            g1 = TR.compute_g_from_k(Kf, om, P["wedge"], P["chi"]); g2 = pyf(PB.compute_g_from_k)(Kf, om, P["wedge"], P["chi"])
        goals = [("numba compute_grain_origins[%d]" % i, T(a[i, 0]) == T(b[i, 0])) for i in range(3)]
        pa, pb = atan2_parts(T(t1[0])), atan2_parts(T(t2[0])); qa, qb = atan2_parts(T(e1[0])), atan2_parts(T(e2[0]))
        goals.append(("numba tth: same atan2 arguments", z3.And(pa[1] == pb[1], pa[2] == pb[2], z3.RealVal(pa[0]) == z3.RealVal(pb[0])) if pa and pb else z3.BoolVal(False)))
        goals.append(("numba eta: same atan2 arguments", z3.And(qa[1] == qb[1], qa[2] == qb[2], z3.RealVal(qa[0]) == z3.RealVal(qb[0])) if qa and qb else z3.BoolVal(False)))
        goals += [("numba compute_k_vectors[%d]" % i, T(k1[i, 0]) == T(k2[i, 0])) for i in range(3)] + [("numba compute_g_from_k[%d]" % i, T(g1[i, 0]) == T(g2[i, 0])) for i in range(3)]
        return dict(goals=goals, inputs={})
    def replay_numba(vals, label):
        rng = np.random.RandomState(5)
        for wedge, chi, t in ((0.0, 0.0, (0, 0, 0)), (3.0, -4.0, (0.1, 0.2, -0.1)), (0.0, 5.0, (0, 0, 0.2)), (7.0, 0.0, (0.3, 0, 0))):
            xyz = rng.uniform(-50, 50, (3, 4)) + np.array([[200.0], [0], [0]]); om = rng.uniform(-180, 180, 4)
            a = TR.compute_grain_origins(om, wedge, chi, *t); b = pyf(PB.compute_grain_origins)(om, wedge, chi, float(t[0]), float(t[1]), float(t[2]))
            if not np.allclose(a, b): return True, "numba compute_grain_origins differs from transform.py for wedge=%g chi=%g t=%s" % (wedge, chi, t)
            t1 = TR.compute_tth_eta_from_xyz(xyz, om, t_x=t[0], t_y=t[1], t_z=t[2], wedge=wedge, chi=chi); t2 = pyf(PB.compute_tth_eta_from_xyz)(xyz, om, float(t[0]), float(t[1]), float(t[2]), wedge, chi)
            if not (np.allclose(t1[0], t2[0]) and np.allclose(t1[1], t2[1])): return True, "numba compute_tth_eta_from_xyz differs from transform.py for wedge=%g chi=%g t=%s" % (wedge, chi, t)
            k = rng.uniform(-1, 1, (3, 4)); g1 = TR.compute_g_from_k(k, om, wedge, chi); g2 = pyf(PB.compute_g_from_k)(k, om, wedge, chi)
            if not np.allclose(g1, g2): return True, "numba compute_g_from_k differs from transform.py for wedge=%g chi=%g" % (wedge, chi)
            k1 = TR.compute_k_vectors(t1[0], t1[1], 0.3); k2 = pyf(PB.compute_k_vectors)(t1[0], t1[1], 0.3)
            if not np.allclose(k1, k2): return True, "numba compute_k_vectors differs from transform.py"
        return False, "numba copies agree numerically"
    # ---- columnfile.updateGeometry: slow route plumbing (which parameter goes where, omegasign applied) and fast route argument passing
    def run_colfile(osign):
        def run():
            p = {n: var(n) for n in PNAMES}; p["omegasign"] = float(osign)
            sc, fc, omega = var("sc"), var("fc"), var("omega")
            cf = CF.colfile_from_dict({"sc": arr(sc), "fc": arr(fc), "omega": arr(omega)})
            pars = PA.parameters(); pars.parameters.clear(); pars.parameters.update(p)
            cf.parameters = pars
            with symbolize(TR), symbolize(CF):
                cf.updateGeometry(fast=False)
                kw = dict(p)
                xyz = TR.compute_xyz_lab(np.array([[sc], [fc]], dtype=object), **kw); om = arr(omega) * float(osign)
                tth, eta = TR.compute_tth_eta_from_xyz(xyz, om, **kw); g = TR.compute_g_vectors(tth, eta, om, p["wavelength"], p["wedge"], p["chi"])
            goals = []
            for j, nm in enumerate(("xl", "yl", "zl")): goals.append(("slow route column %s" % nm, T(cf[nm][0]) == T(xyz[j, 0])))
            for nm, ref in (("tth", tth[0]), ("eta", eta[0]), ("gx", g[0, 0]), ("gy", g[1, 0]), ("gz", g[2, 0])): goals.append(("slow route column %s" % nm, T(cf[nm][0]) == T(ref)))
            ds = T(cf["ds"][0]); gg = T(g[0, 0]) * T(g[0, 0]) + T(g[1, 0]) * T(g[1, 0]) + T(g[2, 0]) * T(g[2, 0])
            goals.append(("slow route column ds = |g|", z3.And(ds >= 0, ds * ds == gg)))
            return dict(goals=goals, inputs={})
        return run
    jobs = [("xyz-and-packing", run_xyz, dict(replay=replay_any, timeout_ms=tmo, keyfn=lambda n, l: "geometry:xyz:" + l[:30])),
            ("numba-copies", run_numba, dict(replay=replay_numba, timeout_ms=tmo, keyfn=lambda n, l: "geometry:numba:" + l.split("[")[0][:40])),
            ("updateGeometry-slow[+1]", run_colfile(1), dict(replay=replay_any, timeout_ms=tmo, keyfn=lambda n, l: "geometry:columnfile")),
            ("updateGeometry-slow[-1]", run_colfile(-1), dict(replay=replay_any, timeout_ms=tmo, keyfn=lambda n, l: "geometry:columnfile"))]
    harness.run_parallel(ck, jobs)
    # refinegrains.compute_gv: the omega sign is applied on both calls (source pattern, the function needs a full refinegrains object)
    import inspect, ImageD11.refinegrains as RG
    src = inspect.getsource(RG.refinegrains.compute_gv); ck.path("refinegrains-pattern")
    if src.count("om * sign") + src.count("om*sign") >= 2 and "transform.compute_tth_eta_from_xyz" in src and "transform.compute_g_vectors" in src:
        ck.ok("refinegrains.compute_gv calls transform.compute_tth_eta_from_xyz and compute_g_vectors with om*sign (source pattern)")
    else: ck.undecided("refinegrains.compute_gv pattern", "the method no longer matches the mirrored call pattern (om * sign on both transform calls)")
    ck.finish("compute_gv and compute_geometry (clang IR) and the Python reference chain are executed on one symbolic peak and symbolic parameters in a shared "
              "trig/sqrt context, for both omega signs and all 16 on/off paths of the reference; grain origin, scattering vector (given d), g-vector (given k), tth/eta "
              "atan2 arguments and ds are equal by z3. compute_xlylzl with the REAL Ctransform packing equals compute_xyz_lab; Ctransform passes the right parameters; "
              "the numba copies equal transform.py function by function; updateGeometry's slow route fills its columns from the reference formulas with omega*omegasign.")

if __name__ == "__main__":
    common.run_main(main)
