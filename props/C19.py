"""
C19 - scanning geometry is self-consistent (conversion pairs are exact inverses; in-beam dty <=> lab y = 0; shift/pad).
Decided by: pysym execution of the real functions of ImageD11/sinograms/geometry.py (and the numba copy
get_voxel_idx.py_func of point_by_point.py) on symbolic reals; z3 NRA validity queries, unbounded in all values.
The iradon sentences of the property are not applicable (FFT behind a C boundary) - see DESIGN.md.
"""
import sys, os, math
sys.path.insert(0, os.path.join(os.path.dirname(os.path.abspath(__file__)), "..", "lib"))
import z3, numpy as np
import common, symcore, pysym, harness
from common import Check, parse_args
from pysym import var, ivar, Sym, T, symbolize
from symcore import CTX

def main():
    args = parse_args("C19"); ck = Check("C19", args.tier)
    import ImageD11.sinograms.geometry as G
    ck.encoded(*["ImageD11/sinograms/geometry.py:" + n for n in (
        "sample_to_lab(_sincos)", "lab_to_sample(_sincos)", "sample_to_step", "step_to_sample", "step_to_recon", "recon_to_step",
        "sample_to_recon", "recon_to_sample", "lab_to_step", "step_to_lab", "lab_to_recon", "recon_to_lab",
        "dty_values_grain_in_beam(_sincos)", "x_y_y0_omega_to_dty", "dty_to_dtyi", "dtyi_to_dty", "step_omega_to_dty(i)",
        "recon_omega_to_dty(i)", "dtyimask_from_{sample,step,recon}(_sincos)", "sino_shift_and_pad")])
    ck.bound("call histories: 13 conversion functions, each called twice on one module instance with ONE argument changed (symbolic old / new value, the others concrete) against the first call of a pristine module instance",
             "unbounded: every coordinate, angle, offset and step is a free real (ystep != 0); recon_shape two free integers >= 0",
             "one point per query (all functions are elementwise)")
    ck.assume("real-arithmetic model: IEEE rounding of + - * / is outside the claim (DESIGN 2.8)",
              "sin/cos of omega: fresh pair with c^2+s^2=1 (over-approximation, sound for identities)",
              "pi = exact rational of the double pi; radians/degrees are linear scalings",
              "np.round = round-half-even on reals (ToInt encoding); astype(int) of an integer-valued real is the identity")
    ck.encoded("ImageD11/sinograms/roi_iradon.py:_sinogram_pad, iradon (filter_name=None, interpolation='linear')")
    ck.bound("iradon back-projection: sinograms of 3..5 rows x 2..7 projections at fixed angles, projection shift 0.25, output pads 0..2, workers 1, 2, 3, 4, 7, one ROI mask; sinogram values free reals",
             "_sinogram_pad: every sinogram height n >= 1 and every padded length D >= n (unbounded integers)")
    ck.assume("numpy.interp is replaced by its documented contract (piecewise linear, left/right values outside) on concrete abscissae and symbolic ordinates; ThreadPoolExecutor by a serial pool (results are accumulated by the calling thread in both)",
              "np.ceil(np.sqrt(2) * size) in _sinogram_pad is cut to an arbitrary integer D >= n")
    ck.stub("module global np -> pysym.NPProxy (round/ceil/abs/where on symbolic elements); everything else is real numpy on object arrays")

    def sym_inputs():
        d = {n: var(n) for n in "sx sy lx ly y0 dty omega ystep ymin si sj ri rj".split()}
        d["n0"], d["n1"] = ivar("n0"), ivar("n1")
        return d
    def common_pre(d):
        return [T(d["ystep"]) != 0, T(d["n0"]) >= 0, T(d["n1"]) >= 0]
    def eq(a, b): return T(a) == T(b)

    def fn_inverse():
        d = sym_inputs(); shape = (d["n0"], d["n1"])
        with symbolize(G):
            goals = []
            def pair(nm, fwd, bwd, x, y):
                u, v = fwd(x, y); x2, y2 = bwd(u, v)
                goals.append((nm + ".0", eq(x2, x))); goals.append((nm + ".1", eq(y2, y)))
            pair("lab(sample)", lambda a, b: G.sample_to_lab(a, b, d["y0"], d["dty"], d["omega"]),
                 lambda a, b: G.lab_to_sample(a, b, d["y0"], d["dty"], d["omega"]), d["sx"], d["sy"])
            pair("sample(lab)", lambda a, b: G.lab_to_sample(a, b, d["y0"], d["dty"], d["omega"]),
                 lambda a, b: G.sample_to_lab(a, b, d["y0"], d["dty"], d["omega"]), d["lx"], d["ly"])
            pair("step(sample)", lambda a, b: G.sample_to_step(a, b, d["ystep"]), lambda a, b: G.step_to_sample(a, b, d["ystep"]), d["sx"], d["sy"])
            pair("sample(step)", lambda a, b: G.step_to_sample(a, b, d["ystep"]), lambda a, b: G.sample_to_step(a, b, d["ystep"]), d["si"], d["sj"])
            pair("recon(step)", lambda a, b: G.step_to_recon(a, b, shape), lambda a, b: G.recon_to_step(a, b, shape), d["si"], d["sj"])
            pair("step(recon)", lambda a, b: G.recon_to_step(a, b, shape), lambda a, b: G.step_to_recon(a, b, shape), d["ri"], d["rj"])
            pair("recon(sample)", lambda a, b: G.sample_to_recon(a, b, shape, d["ystep"]), lambda a, b: G.recon_to_sample(a, b, shape, d["ystep"]), d["sx"], d["sy"])
            pair("sample(recon)", lambda a, b: G.recon_to_sample(a, b, shape, d["ystep"]), lambda a, b: G.sample_to_recon(a, b, shape, d["ystep"]), d["ri"], d["rj"])
            pair("step(lab)", lambda a, b: G.lab_to_step(a, b, d["y0"], d["dty"], d["omega"], d["ystep"]),
                 lambda a, b: G.step_to_lab(a, b, d["y0"], d["dty"], d["omega"], d["ystep"]), d["lx"], d["ly"])
            pair("lab(step)", lambda a, b: G.step_to_lab(a, b, d["y0"], d["dty"], d["omega"], d["ystep"]),
                 lambda a, b: G.lab_to_step(a, b, d["y0"], d["dty"], d["omega"], d["ystep"]), d["si"], d["sj"])
            pair("recon(lab)", lambda a, b: G.lab_to_recon(a, b, d["y0"], d["dty"], d["omega"], shape, d["ystep"]),
                 lambda a, b: G.recon_to_lab(a, b, d["y0"], d["dty"], d["omega"], shape, d["ystep"]), d["lx"], d["ly"])
            pair("lab(recon)", lambda a, b: G.recon_to_lab(a, b, d["y0"], d["dty"], d["omega"], shape, d["ystep"]),
                 lambda a, b: G.lab_to_recon(a, b, d["y0"], d["dty"], d["omega"], shape, d["ystep"]), d["ri"], d["rj"])
            # composed routes agree with their factors (e.g. lab_to_recon = step_to_recon . sample_to_step . lab_to_sample)
            a, b = G.lab_to_sample(d["lx"], d["ly"], d["y0"], d["dty"], d["omega"]); a, b = G.sample_to_step(a, b, d["ystep"]); a, b = G.step_to_recon(a, b, shape)
            r0, r1 = G.lab_to_recon(d["lx"], d["ly"], d["y0"], d["dty"], d["omega"], shape, d["ystep"])
            goals += [("lab_to_recon=composition.0", eq(r0, a)), ("lab_to_recon=composition.1", eq(r1, b))]
            # the rotation is rigid: |lab - (0, dty - y0)| = |sample|
            lx, ly = G.sample_to_lab(d["sx"], d["sy"], d["y0"], d["dty"], d["omega"])
            goals.append(("rigid", T(lx * lx + (ly - d["dty"] + d["y0"]) * (ly - d["dty"] + d["y0"])) == T(d["sx"] * d["sx"] + d["sy"] * d["sy"])))
            c, s = symcore.trig(np.radians(d["omega"]).t)
        return dict(goals=goals, inputs={k: T(v) for k, v in d.items()}, pre=common_pre(d), angle_pairs={"omega": (c, s)})

    def fn_inbeam():
        d = sym_inputs(); shape = (d["n0"], d["n1"])
        with symbolize(G):
            goals = []
            dty = G.dty_values_grain_in_beam(d["sx"], d["sy"], d["y0"], d["omega"])
            lx, ly = G.sample_to_lab(d["sx"], d["sy"], d["y0"], dty, d["omega"])
            goals.append(("in_beam_ly=0", T(ly) == 0))
            # uniqueness: at any other dty the point is off the beam by exactly the dty difference
            lx2, ly2 = G.sample_to_lab(d["sx"], d["sy"], d["y0"], d["dty"], d["omega"])
            goals.append(("ly=dty-dty_in_beam", T(ly2) == T(d["dty"] - dty)))
            goals.append(("x_y_y0_omega_to_dty", eq(G.x_y_y0_omega_to_dty(d["omega"], d["sx"], d["sy"], d["y0"]), dty)))
            goals.append(("dtycalc", eq(G.dtycalc(d["omega"], d["sx"], d["sy"], d["y0"]), dty)))
            dstep = G.step_omega_to_dty(d["si"], d["sj"], d["omega"], d["y0"], d["ystep"])
            l = G.step_to_lab(d["si"], d["sj"], d["y0"], dstep, d["omega"], d["ystep"])
            goals.append(("step_omega_to_dty_ly=0", T(l[1]) == 0))
            drec = G.recon_omega_to_dty(d["ri"], d["rj"], d["omega"], d["y0"], shape, d["ystep"])
            l = G.recon_to_lab(d["ri"], d["rj"], d["y0"], drec, d["omega"], shape, d["ystep"])
            goals.append(("recon_omega_to_dty_ly=0", T(l[1]) == 0))
            # sincos variants agree with the omega variants
            c, s = symcore.trig(np.radians(d["omega"]).t); C, S = Sym(c), Sym(s)
            goals.append(("in_beam_sincos", eq(G.dty_values_grain_in_beam_sincos(d["sx"], d["sy"], d["y0"], S, C), dty)))
            a = G.sample_to_lab_sincos(d["sx"], d["sy"], d["y0"], d["dty"], S, C)
            goals += [("sample_to_lab_sincos.0", eq(a[0], lx2)), ("sample_to_lab_sincos.1", eq(a[1], ly2))]
            a = G.lab_to_sample_sincos(d["lx"], d["ly"], d["y0"], d["dty"], S, C); b = G.lab_to_sample(d["lx"], d["ly"], d["y0"], d["dty"], d["omega"])
            goals += [("lab_to_sample_sincos.0", eq(a[0], b[0])), ("lab_to_sample_sincos.1", eq(a[1], b[1]))]
        return dict(goals=goals, inputs={k: T(v) for k, v in d.items()}, pre=common_pre(d), angle_pairs={"omega": (c, s)})

    def fn_discrete():
        d = sym_inputs(); shape = (d["n0"], d["n1"]); i = ivar("i")
        with symbolize(G):
            goals = []
            back = G.dty_to_dtyi(G.dtyi_to_dty(i, d["ystep"], d["ymin"]), d["ystep"], d["ymin"])
            goals.append(("dtyi(dty(i))=i", T(back[()] if isinstance(back, np.ndarray) else back) == T(i)))
            q = G.dty_to_dtyi(d["dty"], d["ystep"], d["ymin"]); q = q[()] if isinstance(q, np.ndarray) else q
            err = T(G.dtyi_to_dty(q, d["ystep"], d["ymin"]) - d["dty"])
            half = T(d["ystep"]) / 2; ah = z3.If(half >= 0, half, -half)
            goals.append(("dty(dtyi(dty)) within half a step", z3.And(err <= ah, err >= -ah)))
            goals.append(("dtyi integer", z3.IsInt(T(q))))
            # masks: the six variants agree on corresponding coordinates and mean 'nearest bin of the in-beam dty equals dtyi'
            dtyi = ivar("dtyi")
            c, s = symcore.trig(np.radians(d["omega"]).t); C, S = Sym(c), Sym(s)
            def tb(x):
                x = x[()] if isinstance(x, np.ndarray) else x
                return x.t if isinstance(x, pysym.SymBool) else z3.BoolVal(bool(x))
            sx, sy = G.recon_to_sample(d["ri"], d["rj"], shape, d["ystep"]); si, sj = G.recon_to_step(d["ri"], d["rj"], shape)
            m0 = tb(G.dtyimask_from_sample(sx, sy, d["omega"], dtyi, d["y0"], d["ystep"], d["ymin"]))
            spec = T(G.dty_to_dtyi(G.dty_values_grain_in_beam(sx, sy, d["y0"], d["omega"]), d["ystep"], d["ymin"])[()]) == T(dtyi)
            goals.append(("mask_sample=spec", m0 == spec))
            goals.append(("mask_sample_sincos", tb(G.dtyimask_from_sample_sincos(sx, sy, S, C, dtyi, d["y0"], d["ystep"], d["ymin"])) == m0))
            goals.append(("mask_step", tb(G.dtyimask_from_step(si, sj, d["omega"], dtyi, d["y0"], d["ystep"], d["ymin"])) == m0))
            goals.append(("mask_step_sincos", tb(G.dtyimask_from_step_sincos(si, sj, S, C, dtyi, d["y0"], d["ystep"], d["ymin"])) == m0))
            goals.append(("mask_recon", tb(G.dtyimask_from_recon(d["ri"], d["rj"], d["omega"], dtyi, d["y0"], d["ystep"], d["ymin"], shape)) == m0))
            goals.append(("mask_recon_sincos", tb(G.dtyimask_from_recon_sincos(d["ri"], d["rj"], S, C, dtyi, d["y0"], d["ystep"], d["ymin"], shape)) == m0))
            a = G.step_omega_to_dtyi(si, sj, d["omega"], d["y0"], d["ystep"], d["ymin"]); b = G.recon_omega_to_dtyi(d["ri"], d["rj"], d["omega"], d["y0"], shape, d["ystep"], d["ymin"])
            goals.append(("step_omega_to_dtyi=recon_omega_to_dtyi", T(a[()]) == T(b[()])))
            # shift and pad
            ny = ivar("ny")
            shift, pad = G.sino_shift_and_pad(d["y0"], ny, d["ymin"], d["ystep"]); pad = pad[()] if isinstance(pad, np.ndarray) else pad
            sh = T(shift); ash = z3.If(sh >= 0, sh, -sh)
            goals.append(("shift", sh == T(ny) / 2 - (T(d["y0"]) - T(d["ymin"])) / T(d["ystep"])))
            goals.append(("pad>=2|shift|+1", T(pad) >= 2 * ash + 1))
            goals.append(("pad<2|shift|+2", T(pad) < 2 * ash + 2))
            goals.append(("pad integer", z3.IsInt(T(pad))))
            # the rotation axis (dty = y0) lands on the centre row after shifting
            goals.append(("axis row + shift = ny/2", (T(d["y0"]) - T(d["ymin"])) / T(d["ystep"]) + sh == T(ny) / 2))
        inp = {k: T(v) for k, v in d.items()}; inp.update(i=T(i), dtyi=T(dtyi), ny=T(ny))
        return dict(goals=goals, inputs=inp, pre=common_pre(d) + [T(ny) >= 1], angle_pairs={"omega": (c, s)})

    def fn_pbp():
        import ImageD11.sinograms.point_by_point as P
        d = sym_inputs()
        f = P.get_voxel_idx.py_func
        c, s = symcore.trig(np.radians(d["omega"]).t); C, S = Sym(c), Sym(s)
        with symbolize(P), symbolize(G):
            idx, ydist = f(d["y0"], d["sx"], d["sy"], np.array([S], dtype=object), np.array([C], dtype=object), np.array([d["dty"]], dtype=object), d["ystep"])
            lx, ly = G.sample_to_lab(d["sx"], d["sy"], d["y0"], d["dty"], d["omega"])
            aly = T(abs(ly))
            goals = [("get_voxel_idx.ydist=|ly|", T(ydist[0]) == aly),
                     ("get_voxel_idx selects iff |ly|<=ystep", z3.BoolVal(len(idx) == 1) == (aly <= T(d["ystep"])))]
        return dict(goals=goals, inputs={k: T(v) for k, v in d.items()}, pre=[T(d["ystep"]) != 0], angle_pairs={"omega": (c, s)})

    # ---- replay of a sat model on the real functions (plain numpy floats)
    def replay(vals, label):
        v = dict(vals)
        for k in ("n0", "n1", "i", "dtyi", "ny"):
            if v.get(k) is not None: v[k] = int(round(v[k]))
        if any(v.get(k) is None for k in ("sx", "sy", "y0", "dty", "omega", "ystep")): return False, "model incomplete"
        shape = (v.get("n0", 4), v.get("n1", 4)); bad = []
        def chk(nm, a, b):
            if not harness.close(float(a), float(b), 1e-7, 1e-7): bad.append("%s: %r != %r" % (nm, float(a), float(b)))
        o = v["omega"]
        pairs = [("lab(sample)", lambda a, b: G.sample_to_lab(a, b, v["y0"], v["dty"], o), lambda a, b: G.lab_to_sample(a, b, v["y0"], v["dty"], o), v["sx"], v["sy"]),
                 ("sample(lab)", lambda a, b: G.lab_to_sample(a, b, v["y0"], v["dty"], o), lambda a, b: G.sample_to_lab(a, b, v["y0"], v["dty"], o), v["lx"], v["ly"]),
                 ("step(sample)", lambda a, b: G.sample_to_step(a, b, v["ystep"]), lambda a, b: G.step_to_sample(a, b, v["ystep"]), v["sx"], v["sy"]),
                 ("recon(step)", lambda a, b: G.step_to_recon(a, b, shape), lambda a, b: G.recon_to_step(a, b, shape), v["si"], v["sj"]),
                 ("recon(sample)", lambda a, b: G.sample_to_recon(a, b, shape, v["ystep"]), lambda a, b: G.recon_to_sample(a, b, shape, v["ystep"]), v["sx"], v["sy"]),
                 ("step(lab)", lambda a, b: G.lab_to_step(a, b, v["y0"], v["dty"], o, v["ystep"]), lambda a, b: G.step_to_lab(a, b, v["y0"], v["dty"], o, v["ystep"]), v["lx"], v["ly"]),
                 ("recon(lab)", lambda a, b: G.lab_to_recon(a, b, v["y0"], v["dty"], o, shape, v["ystep"]), lambda a, b: G.recon_to_lab(a, b, v["y0"], v["dty"], o, shape, v["ystep"]), v["lx"], v["ly"]),
                 ("lab(recon)", lambda a, b: G.recon_to_lab(a, b, v["y0"], v["dty"], o, shape, v["ystep"]), lambda a, b: G.lab_to_recon(a, b, v["y0"], v["dty"], o, shape, v["ystep"]), v["ri"], v["rj"])]
        for nm, f, g, x, y in pairs:
            a, b = g(*f(x, y)); chk(nm + ".0", a, x); chk(nm + ".1", b, y)
        dt = G.dty_values_grain_in_beam(v["sx"], v["sy"], v["y0"], o)
        chk("in_beam_ly=0", G.sample_to_lab(v["sx"], v["sy"], v["y0"], dt, o)[1], 0.0)
        chk("x_y_y0_omega_to_dty", G.x_y_y0_omega_to_dty(o, v["sx"], v["sy"], v["y0"]), dt)
        ds = G.step_omega_to_dty(v["si"], v["sj"], o, v["y0"], v["ystep"]); chk("step_omega_to_dty_ly=0", G.step_to_lab(v["si"], v["sj"], v["y0"], ds, o, v["ystep"])[1], 0.0)
        dr = G.recon_omega_to_dty(v["ri"], v["rj"], o, v["y0"], shape, v["ystep"]); chk("recon_omega_to_dty_ly=0", G.recon_to_lab(v["ri"], v["rj"], v["y0"], dr, o, shape, v["ystep"])[1], 0.0)
        if v.get("i") is not None and v.get("ymin") is not None:
            chk("dtyi(dty(i))=i", G.dty_to_dtyi(G.dtyi_to_dty(v["i"], v["ystep"], v["ymin"]), v["ystep"], v["ymin"]), v["i"])
        if v.get("ny") is not None and v.get("ymin") is not None:
            sh, pad = G.sino_shift_and_pad(v["y0"], v["ny"], v["ymin"], v["ystep"])
            chk("shift", sh, v["ny"] / 2 - (v["y0"] - v["ymin"]) / v["ystep"])
            if not (pad >= 2 * abs(sh) + 1 - 1e-9): bad.append("pad %r < 2|shift|+1 = %r" % (pad, 2 * abs(sh) + 1))
            if not (pad < 2 * abs(sh) + 2 + 1e-9): bad.append("pad %r >= 2|shift|+2" % (pad,))
        import ImageD11.sinograms.point_by_point as P
        so, co = math.sin(math.radians(o)), math.cos(math.radians(o))
        idx, yd = P.get_voxel_idx.py_func(v["y0"], v["sx"], v["sy"], np.array([so]), np.array([co]), np.array([v["dty"]]), v["ystep"])
        chk("get_voxel_idx.ydist=|ly|", yd[0], abs(G.sample_to_lab(v["sx"], v["sy"], v["y0"], v["dty"], o)[1]))
        return (len(bad) > 0), "; ".join(bad[:4]) if bad else "all identities hold numerically at the model point"

    # ---- back-projection structure of roi_iradon.iradon (filter_name=None: the FFT ramp filter is behind a C boundary and outside the claim)
    import ImageD11.sinograms.roi_iradon as RI
    from fractions import Fraction
    def interp_stub(t, xp, fp, left=None, right=None):
        """numpy.interp's documented contract (piecewise-linear, left/right outside) on concrete t, xp and symbolic fp"""
        t = np.asarray(t, float); xp = [Fraction(float(v)) for v in xp]; out = np.empty(t.shape, dtype=object)
        for idx in np.ndindex(t.shape):
            tv = Fraction(float(t[idx]))
            if tv < xp[0]: out[idx] = fp[0] if left is None else left
            elif tv > xp[-1]: out[idx] = fp[-1] if right is None else right
            elif tv == xp[-1]: out[idx] = fp[len(xp) - 1]
            else:
                j = max(k for k in range(len(xp) - 1) if xp[k] <= tv)
                out[idx] = fp[j] + (fp[j + 1] - fp[j]) * ((tv - xp[j]) / (xp[j + 1] - xp[j]))
        return out
    SHARED_WRITES = []
    class SerialPool:
        """jobs run one after the other in the calling thread; in exchange every array the job function can see through its closure is
        compared before / after each job: a job that writes to such an array shares mutable state with the jobs of the other workers"""
        def __init__(s, max_workers=None): s.max_workers = max_workers
        def __enter__(s): return s
        def __exit__(s, *a): return False
        def map(s, f, it):
            cells = [(n, c.cell_contents) for n, c in zip(f.__code__.co_freevars, f.__closure__ or ()) if isinstance(getattr(c, "cell_contents", None), np.ndarray)]
            out = []
            for x in it:
                before = [a.copy() for _, a in cells]
                out.append(f(x))
                for (n, a), b in zip(cells, before):
                    same = a.shape == b.shape and all((p is q) or (not isinstance(p, Sym) and not isinstance(q, Sym) and p == q) or (isinstance(p, Sym) and isinstance(q, Sym) and p.t.eq(q.t)) for p, q in zip(a.ravel().tolist() if a.dtype != object else a.ravel(), b.ravel().tolist() if b.dtype != object else b.ravel()))
                    if not same: SHARED_WRITES.append(n)
            return out
    class _CF:
        ThreadPoolExecutor = SerialPool
    class _NPI(pysym.NPProxy):
        def interp(s, *a, **k): return interp_stub(*a, **k)
        def pad(s, a, pw, mode="constant", constant_values=0):
            a = np.asarray(a)
            if a.dtype != object: return np.pad(a, pw, mode=mode, constant_values=constant_values)
            (b0, a0), (b1, a1) = pw; out = np.empty((a.shape[0] + b0 + a0, a.shape[1] + b1 + a1), dtype=object); out[...] = constant_values
            out[b0:b0 + a.shape[0], b1:b1 + a.shape[1]] = a; return out
        def zeros(s, shape, dtype=None, **k):
            if dtype == object:
                a = np.empty(shape, dtype=object); a[...] = 0; return a
            return pysym.NPProxy.zeros(s, shape, dtype, **k)
    CONFIGS = [(3, (0.0, 90.0), 0), (4, (0.0, 60.0, 120.0), 1), (3, (0.0, 45.0, 90.0, 135.0, 180.0), 0)] if args.tier == "quick" else \
              [(3, (0.0, 90.0), 0), (4, (0.0, 60.0, 120.0), 1), (3, (0.0, 45.0, 90.0, 135.0, 180.0), 0), (5, (0.0, 30.0, 60.0, 90.0, 120.0, 150.0, 180.0), 2), (4, (10.0, 100.0, 190.0, 280.0), 0)]
    def mk_iradon(n, theta, padv):
        def run():
            S1 = np.array([[var("s_%d_%d" % (i, j)) for j in range(len(theta))] for i in range(n)], dtype=object)
            S2 = np.array([[var("u_%d_%d" % (i, j)) for j in range(len(theta))] for i in range(n)], dtype=object); a, b = var("a"), var("b")
            sh = np.full((n, len(theta)), 0.25); osz = n + padv; th = np.array(theta)
            mask = np.zeros((osz, osz), bool); mask[::2, 1::2] = True; mask[1, 1] = True
            del SHARED_WRITES[:]
            with pysym.patched((RI, "np", _NPI()), (RI, "concurrent", type("C", (), {"futures": _CF}))):
                call = lambda S, w, m=None: RI.iradon(S, theta=th, output_size=osz, filter_name=None, interpolation="linear", projection_shifts=sh, mask=m, workers=w)
                r1 = call(S1, 1); goals = []
                for w in (2, 3, 4, 7):
                    rw = call(S1, w)
                    goals.append(("iradon(workers=%d) = iradon(workers=1) on every pixel (each projection back-projected exactly once)" % w, z3.And([T(x) == T(y) for x, y in zip(rw.ravel(), r1.ravel())])))
                rm = call(S1, 2, mask)
                goals.append(("iradon with an ROI mask = unmasked reconstruction on the mask and 0 elsewhere", z3.And([T(x) == (T(y) if m else 0) for x, y, m in zip(rm.ravel(), r1.ravel(), mask.ravel())])))
                r2 = call(S2, 1); rl = call(a * S1 + b * S2, 3)
                goals.append(("no pool job of iradon writes to an array that the jobs of the other workers can see (closure of the job function)%s" % ((": " + ", ".join(sorted(set(SHARED_WRITES)))) if SHARED_WRITES else ""), z3.BoolVal(not SHARED_WRITES)))
                goals.append(("iradon is linear in the sinogram", z3.And([T(x) == a.t * T(y) + b.t * T(z) for x, y, z in zip(rl.ravel(), r1.ravel(), r2.ravel())])))
            return dict(goals=goals, inputs={})
        return run
    def replay_iradon(n, theta, padv):
        def rp(vals, label):
            rng = np.random.RandomState(common.SEED); S = rng.uniform(0, 1, (n, len(theta))); sh = np.full(S.shape, 0.25); th = np.array(theta); osz = n + padv
            r1 = RI.iradon(S, theta=th, output_size=osz, filter_name=None, projection_shifts=sh, workers=1)
            for w in (2, 3, 4, 7):
                rw = RI.iradon(S, theta=th, output_size=osz, filter_name=None, projection_shifts=sh, workers=w)
                if not np.allclose(rw, r1, rtol=1e-9, atol=1e-12): return True, "iradon(workers=%d) differs from workers=1 for a %dx%d sinogram: max diff %g" % (w, n, len(theta), abs(rw - r1).max())
            if "pool job" in label:      # shared mutable state between real pool threads: a larger problem, many projections, repeated runs
                big = rng.uniform(0, 1, (96, 180)); tb = np.linspace(0, 180, 180, endpoint=False); ref = RI.iradon(big, theta=tb, filter_name=None, workers=1)
                for rep in range(12):
                    rw = RI.iradon(big, theta=tb, filter_name=None, workers=8)
                    if not np.allclose(rw, ref, rtol=1e-9, atol=1e-12): return True, "iradon(workers=8) differs from workers=1 on a 96x180 sinogram (run %d): max diff %g - the pool threads share mutable state" % (rep, abs(rw - ref).max())
            mask = np.zeros((osz, osz), bool); mask[::2, 1::2] = True; mask[1, 1] = True
            rm = RI.iradon(S, theta=th, output_size=osz, filter_name=None, projection_shifts=sh, workers=2, mask=mask)
            if not (np.allclose(rm[mask], r1[mask]) and (rm[~mask] == 0).all()): return True, "masked reconstruction differs from the unmasked one on the mask"
            S2 = rng.uniform(0, 1, S.shape); r2 = RI.iradon(S2, theta=th, output_size=osz, filter_name=None, projection_shifts=sh, workers=1)
            rl = RI.iradon(2 * S - 3 * S2, theta=th, output_size=osz, filter_name=None, projection_shifts=sh, workers=3)
            if not np.allclose(rl, 2 * r1 - 3 * r2, rtol=1e-9, atol=1e-12): return True, "iradon(2 S1 - 3 S2) != 2 iradon(S1) - 3 iradon(S2)"
            return False, "worker / mask / linearity identities hold numerically"
        return rp
    def fn_pad():
        """_sinogram_pad keeps the rotation-axis row n//2 on the centre row diagonal//2 of the padded array (iradon's x = arange(N) - N//2)"""
        n, D = ivar("n"), ivar("D"); CTX.hyp += [T(n) >= 1, T(D) >= T(n)]
        class _NPD(pysym.NPProxy):
            def ceil(s, x): return D          # diagonal = int(ceil(sqrt(2) * size)): any integer >= n
            def sqrt(s, x): return 1.0
        intp = lambda x: x
        with pysym.patched((RI, "np", _NPD()), (RI, "int", intp)):
            (pb, pa), (z0, z1) = RI._sinogram_pad(n, var("o"))
        try: delattr(RI, "int")
        except AttributeError: pass
        fl = lambda x: z3.ToReal(z3.ToInt(T(x) / 2))
        goals = [("pad: row n//2 of the sinogram lands on row diagonal//2 of the padded array", T(pb) + fl(n) == fl(D)),
                 ("pad: before + after + n = diagonal, both >= 0", z3.And(T(pb) + T(pa) + T(n) == T(D), T(pb) >= 0, T(pa) >= 0)),
                 ("pad: no padding along the projection axis", z3.BoolVal(z0 == 0 and z1 == 0))]
        return dict(goals=goals, inputs={"n": T(n), "D": T(D)})
    def replay_pad(vals, label):
        for n in range(1, 200):
            for o in range(n, n + 40):
                (pb, pa), _ = RI._sinogram_pad(n, o); D = int(np.ceil(np.sqrt(2) * o))
                if pb + n // 2 != D // 2 or pb < 0 or pa < 0 or pb + pa + n != D: return True, "_sinogram_pad(%d, %d) = (%d, %d): row n//2 does not land on row %d of the padded array" % (n, o, pb, pa, D // 2)
        return False, "pad keeps the centre row"

    tmo = 20000 if args.tier == "quick" else 120000
    harness.run_identities(ck, "iradon-pad", fn_pad, replay_pad, tmo, expect_paths=1)
    for n, theta, padv in CONFIGS:
        harness.run_identities(ck, "iradon-backprojection n=%d angles=%d pad=%d" % (n, len(theta), padv), mk_iradon(n, theta, padv), replay_iradon(n, theta, padv), tmo, expect_paths=1)
    # ---- the conversions are pure: a second call with one argument changed equals the first call of a pristine module instance (module-level memo tables would show here)
    HP = dict(sx=1.25, sy=-0.75, y0=0.125, dty=2.5, omega=33.0, ystep=0.05, ymin=-3.0, n0=41.0, n1=41.0)
    HSIG = {"sample_to_lab": ("sx", "sy", "y0", "dty", "omega"), "lab_to_sample": ("sx", "sy", "y0", "dty", "omega"), "sample_to_step": ("sx", "sy", "ystep"), "step_to_sample": ("sx", "sy", "ystep"),
            "sample_to_recon": ("sx", "sy", "SHAPE", "ystep"), "recon_to_sample": ("sx", "sy", "SHAPE", "ystep"), "lab_to_recon": ("sx", "sy", "y0", "dty", "omega", "SHAPE", "ystep"),
            "recon_to_lab": ("sx", "sy", "y0", "dty", "omega", "SHAPE", "ystep"), "dty_values_grain_in_beam": ("sx", "sy", "y0", "omega"), "step_omega_to_dty": ("sx", "sy", "omega", "y0", "ystep"),
            "recon_omega_to_dty": ("sx", "sy", "omega", "y0", "SHAPE", "ystep"), "dty_to_dtyi": ("dty", "ystep", "ymin"), "dtyi_to_dty": ("dty", "ystep", "ymin")}
    def hcall(m, fname, P):
        a = [((P["n0"], P["n1"]) if k == "SHAPE" else P[k]) for k in HSIG[fname]]
        r = getattr(m, fname)(*a)
        return [x for part in (r if isinstance(r, (tuple, list)) else [r]) for x in np.asarray(part, dtype=object).ravel()]
    def mk_hist(fname):
        keys = [k for k in HSIG[fname] if k != "SHAPE"] + (["n0"] if "SHAPE" in HSIG[fname] else [])
        def run(): return dict(goals=harness.history_goals(G, fname, hcall, HP, order=keys), inputs={})
        return run
    def replay_hist(vals, label):
        fname = label.split()[1].split("(")[0]; k = label.split("(")[1].split(" ")[0]
        for newv in (HP[k] * 1.5 + 0.25, -HP[k] - 0.125):
            m1 = harness.fresh_module_copy(G); m0 = harness.fresh_module_copy(G)
            hcall(m1, fname, HP); got = [float(x) for x in hcall(m1, fname, dict(HP, **{k: newv}))]; want = [float(x) for x in hcall(m0, fname, dict(HP, **{k: newv}))]
            if not np.allclose(got, want, rtol=1e-12, atol=1e-12, equal_nan=True): return True, "geometry.%s depends on the call history: with %s=%r after a call with %s=%r it returns %s, a first call returns %s" % (fname, k, newv, k, HP[k], got, want)
        return False, "second call equals a pristine first call on the real module"
    for fname in HSIG:
        harness.run_identities(ck, "history %s" % fname, mk_hist(fname), replay_hist, tmo, vacuity=False, budget_s=120, keyfn=lambda n, l: "geometry.py:%s:call-history" % l.split()[1].split("(")[0])
    harness.run_identities(ck, "inverse-pairs", fn_inverse, replay, tmo, expect_paths=1)
    harness.run_identities(ck, "in-beam", fn_inbeam, replay, tmo, expect_paths=1)
    harness.run_identities(ck, "discretisation-masks-shift-pad", fn_discrete, replay, tmo, expect_paths=1)
    harness.run_identities(ck, "pbp-get_voxel_idx", fn_pbp, replay, tmo)
    ck.finish("Each conversion function of sinograms/geometry.py is executed on symbolic reals (pysym); every inverse pair, the in-beam "
              "condition (lab y = 0 at the returned dty, for the sample, step and recon entry points), the discretisation round trip, "
              "the agreement of the six dtyimask variants, shift/pad and the numba get_voxel_idx copy are validity queries in z3 "
              "(unsat of the negation = holds for all real inputs, no size bound). The back-projection of roi_iradon.iradon (filter_name=None) is executed on symbolic sinograms for a few small shapes: worker-count independence, ROI-mask restriction and linearity are validity queries; "
              "_sinogram_pad's centring is an unbounded integer query. The FFT ramp filter and the 1.5-pixel reconstruction accuracy sentence are not applicable.")

if __name__ == "__main__":
    common.run_main(main)
