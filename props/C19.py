"""
C19 - scanning geometry is self-consistent (conversion pairs are exact inverses; in-beam dty <=> lab y = 0; shift/pad).
Decided by: pysym execution of the real functions of ImageD11/sinograms/geometry.py (and the numba copy
get_voxel_idx.py_func of point_by_point.py) on symbolic reals; z3 NRA validity queries, unbounded in all values.
The iradon sentences of the property are not applicable (FFT behind a C boundary) - see DESIGN.md.
"""
import sys, os, math
sys.path.insert(0, os.path.join(os.path.dirname(os.path.abspath(__file__)), "..", "lib"))
import z3, numpy as np
import common, symcore, pysym, harness
from common import Check, parse_args
from pysym import var, ivar, Sym, T, symbolize
from symcore import CTX

def main():
    args = parse_args("C19"); ck = Check("C19", args.tier)
    import ImageD11.sinograms.geometry as G
    ck.encoded(*["ImageD11/sinograms/geometry.py:" + n for n in (
        "sample_to_lab(_sincos)", "lab_to_sample(_sincos)", "sample_to_step", "step_to_sample", "step_to_recon", "recon_to_step",
        "sample_to_recon", "recon_to_sample", "lab_to_step", "step_to_lab", "lab_to_recon", "recon_to_lab",
        "dty_values_grain_in_beam(_sincos)", "x_y_y0_omega_to_dty", "dty_to_dtyi", "dtyi_to_dty", "step_omega_to_dty(i)",
        "recon_omega_to_dty(i)", "dtyimask_from_{sample,step,recon}(_sincos)", "sino_shift_and_pad")])
    ck.bound("unbounded: every coordinate, angle, offset and step is a free real (ystep != 0); recon_shape two free integers >= 0",
             "one point per query (all functions are elementwise)")
    ck.assume("real-arithmetic model: IEEE rounding of + - * / is outside the claim (DESIGN 2.8)",
              "sin/cos of omega: fresh pair with c^2+s^2=1 (over-approximation, sound for identities)",
              "pi = exact rational of the double pi; radians/degrees are linear scalings",
              "np.round = round-half-even on reals (ToInt encoding); astype(int) of an integer-valued real is the identity")
    ck.stub("module global np -> pysym.NPProxy (round/ceil/abs/where on symbolic elements); everything else is real numpy on object arrays")

    def sym_inputs():
        d = {n: var(n) for n in "sx sy lx ly y0 dty omega ystep ymin si sj ri rj".split()}
        d["n0"], d["n1"] = ivar("n0"), ivar("n1")
        return d
    def common_pre(d):
        return [T(d["ystep"]) != 0, T(d["n0"]) >= 0, T(d["n1"]) >= 0]
    def eq(a, b): return T(a) == T(b)

    def fn_inverse():
        d = sym_inputs(); shape = (d["n0"], d["n1"])
        with symbolize(G):
            goals = []
            def pair(nm, fwd, bwd, x, y):
                u, v = fwd(x, y); x2, y2 = bwd(u, v)
                goals.append((nm + ".0", eq(x2, x))); goals.append((nm + ".1", eq(y2, y)))
            pair("lab(sample)", lambda a, b: G.sample_to_lab(a, b, d["y0"], d["dty"], d["omega"]),
                 lambda a, b: G.lab_to_sample(a, b, d["y0"], d["dty"], d["omega"]), d["sx"], d["sy"])
            pair("sample(lab)", lambda a, b: G.lab_to_sample(a, b, d["y0"], d["dty"], d["omega"]),
                 lambda a, b: G.sample_to_lab(a, b, d["y0"], d["dty"], d["omega"]), d["lx"], d["ly"])
            pair("step(sample)", lambda a, b: G.sample_to_step(a, b, d["ystep"]), lambda a, b: G.step_to_sample(a, b, d["ystep"]), d["sx"], d["sy"])
            pair("sample(step)", lambda a, b: G.step_to_sample(a, b, d["ystep"]), lambda a, b: G.sample_to_step(a, b, d["ystep"]), d["si"], d["sj"])
            pair("recon(step)", lambda a, b: G.step_to_recon(a, b, shape), lambda a, b: G.recon_to_step(a, b, shape), d["si"], d["sj"])
            pair("step(recon)", lambda a, b: G.recon_to_step(a, b, shape), lambda a, b: G.step_to_recon(a, b, shape), d["ri"], d["rj"])
            pair("recon(sample)", lambda a, b: G.sample_to_recon(a, b, shape, d["ystep"]), lambda a, b: G.recon_to_sample(a, b, shape, d["ystep"]), d["sx"], d["sy"])
            pair("sample(recon)", lambda a, b: G.recon_to_sample(a, b, shape, d["ystep"]), lambda a, b: G.sample_to_recon(a, b, shape, d["ystep"]), d["ri"], d["rj"])
            pair("step(lab)", lambda a, b: G.lab_to_step(a, b, d["y0"], d["dty"], d["omega"], d["ystep"]),
                 lambda a, b: G.step_to_lab(a, b, d["y0"], d["dty"], d["omega"], d["ystep"]), d["lx"], d["ly"])
            pair("lab(step)", lambda a, b: G.step_to_lab(a, b, d["y0"], d["dty"], d["omega"], d["ystep"]),
                 lambda a, b: G.lab_to_step(a, b, d["y0"], d["dty"], d["omega"], d["ystep"]), d["si"], d["sj"])
            pair("recon(lab)", lambda a, b: G.lab_to_recon(a, b, d["y0"], d["dty"], d["omega"], shape, d["ystep"]),
                 lambda a, b: G.recon_to_lab(a, b, d["y0"], d["dty"], d["omega"], shape, d["ystep"]), d["lx"], d["ly"])
            pair("lab(recon)", lambda a, b: G.recon_to_lab(a, b, d["y0"], d["dty"], d["omega"], shape, d["ystep"]),
                 lambda a, b: G.lab_to_recon(a, b, d["y0"], d["dty"], d["omega"], shape, d["ystep"]), d["ri"], d["rj"])
            # composed routes agree with their factors (e.g. lab_to_recon = step_to_recon . sample_to_step . lab_to_sample)
            a, b = G.lab_to_sample(d["lx"], d["ly"], d["y0"], d["dty"], d["omega"]); a, b = G.sample_to_step(a, b, d["ystep"]); a, b = G.step_to_recon(a, b, shape)
            r0, r1 = G.lab_to_recon(d["lx"], d["ly"], d["y0"], d["dty"], d["omega"], shape, d["ystep"])
            goals += [("lab_to_recon=composition.0", eq(r0, a)), ("lab_to_recon=composition.1", eq(r1, b))]
            # the rotation is rigid: |lab - (0, dty - y0)| = |sample|
            lx, ly = G.sample_to_lab(d["sx"], d["sy"], d["y0"], d["dty"], d["omega"])
            goals.append(("rigid", T(lx * lx + (ly - d["dty"] + d["y0"]) * (ly - d["dty"] + d["y0"])) == T(d["sx"] * d["sx"] + d["sy"] * d["sy"])))
            c, s = symcore.trig(np.radians(d["omega"]).t)
        return dict(goals=goals, inputs={k: T(v) for k, v in d.items()}, pre=common_pre(d), angle_pairs={"omega": (c, s)})

    def fn_inbeam():
        d = sym_inputs(); shape = (d["n0"], d["n1"])
        with symbolize(G):
            goals = []
            dty = G.dty_values_grain_in_beam(d["sx"], d["sy"], d["y0"], d["omega"])
            lx, ly = G.sample_to_lab(d["sx"], d["sy"], d["y0"], dty, d["omega"])
            goals.append(("in_beam_ly=0", T(ly) == 0))
            # uniqueness: at any other dty the point is off the beam by exactly the dty difference
            lx2, ly2 = G.sample_to_lab(d["sx"], d["sy"], d["y0"], d["dty"], d["omega"])
            goals.append(("ly=dty-dty_in_beam", T(ly2) == T(d["dty"] - dty)))
            goals.append(("x_y_y0_omega_to_dty", eq(G.x_y_y0_omega_to_dty(d["omega"], d["sx"], d["sy"], d["y0"]), dty)))
            goals.append(("dtycalc", eq(G.dtycalc(d["omega"], d["sx"], d["sy"], d["y0"]), dty)))
            dstep = G.step_omega_to_dty(d["si"], d["sj"], d["omega"], d["y0"], d["ystep"])
            l = G.step_to_lab(d["si"], d["sj"], d["y0"], dstep, d["omega"], d["ystep"])
            goals.append(("step_omega_to_dty_ly=0", T(l[1]) == 0))
            drec = G.recon_omega_to_dty(d["ri"], d["rj"], d["omega"], d["y0"], shape, d["ystep"])
            l = G.recon_to_lab(d["ri"], d["rj"], d["y0"], drec, d["omega"], shape, d["ystep"])
            goals.append(("recon_omega_to_dty_ly=0", T(l[1]) == 0))
            # sincos variants agree with the omega variants
            c, s = symcore.trig(np.radians(d["omega"]).t); C, S = Sym(c), Sym(s)
            goals.append(("in_beam_sincos", eq(G.dty_values_grain_in_beam_sincos(d["sx"], d["sy"], d["y0"], S, C), dty)))
            a = G.sample_to_lab_sincos(d["sx"], d["sy"], d["y0"], d["dty"], S, C)
            goals += [("sample_to_lab_sincos.0", eq(a[0], lx2)), ("sample_to_lab_sincos.1", eq(a[1], ly2))]
            a = G.lab_to_sample_sincos(d["lx"], d["ly"], d["y0"], d["dty"], S, C); b = G.lab_to_sample(d["lx"], d["ly"], d["y0"], d["dty"], d["omega"])
            goals += [("lab_to_sample_sincos.0", eq(a[0], b[0])), ("lab_to_sample_sincos.1", eq(a[1], b[1]))]
        return dict(goals=goals, inputs={k: T(v) for k, v in d.items()}, pre=common_pre(d), angle_pairs={"omega": (c, s)})

    def fn_discrete():
        d = sym_inputs(); shape = (d["n0"], d["n1"]); i = ivar("i")
        with symbolize(G):
            goals = []
            back = G.dty_to_dtyi(G.dtyi_to_dty(i, d["ystep"], d["ymin"]), d["ystep"], d["ymin"])
            goals.append(("dtyi(dty(i))=i", T(back[()] if isinstance(back, np.ndarray) else back) == T(i)))
            q = G.dty_to_dtyi(d["dty"], d["ystep"], d["ymin"]); q = q[()] if isinstance(q, np.ndarray) else q
            err = T(G.dtyi_to_dty(q, d["ystep"], d["ymin"]) - d["dty"])
            half = T(d["ystep"]) / 2; ah = z3.If(half >= 0, half, -half)
            goals.append(("dty(dtyi(dty)) within half a step", z3.And(err <= ah, err >= -ah)))
            goals.append(("dtyi integer", z3.IsInt(T(q))))
            # masks: the six variants agree on corresponding coordinates and mean 'nearest bin of the in-beam dty equals dtyi'
            dtyi = ivar("dtyi")
            c, s = symcore.trig(np.radians(d["omega"]).t); C, S = Sym(c), Sym(s)
            def tb(x):
                x = x[()] if isinstance(x, np.ndarray) else x
                return x.t if isinstance(x, pysym.SymBool) else z3.BoolVal(bool(x))
            sx, sy = G.recon_to_sample(d["ri"], d["rj"], shape, d["ystep"]); si, sj = G.recon_to_step(d["ri"], d["rj"], shape)
            m0 = tb(G.dtyimask_from_sample(sx, sy, d["omega"], dtyi, d["y0"], d["ystep"], d["ymin"]))
            spec = T(G.dty_to_dtyi(G.dty_values_grain_in_beam(sx, sy, d["y0"], d["omega"]), d["ystep"], d["ymin"])[()]) == T(dtyi)
            goals.append(("mask_sample=spec", m0 == spec))
            goals.append(("mask_sample_sincos", tb(G.dtyimask_from_sample_sincos(sx, sy, S, C, dtyi, d["y0"], d["ystep"], d["ymin"])) == m0))
            goals.append(("mask_step", tb(G.dtyimask_from_step(si, sj, d["omega"], dtyi, d["y0"], d["ystep"], d["ymin"])) == m0))
            goals.append(("mask_step_sincos", tb(G.dtyimask_from_step_sincos(si, sj, S, C, dtyi, d["y0"], d["ystep"], d["ymin"])) == m0))
            goals.append(("mask_recon", tb(G.dtyimask_from_recon(d["ri"], d["rj"], d["omega"], dtyi, d["y0"], d["ystep"], d["ymin"], shape)) == m0))
            goals.append(("mask_recon_sincos", tb(G.dtyimask_from_recon_sincos(d["ri"], d["rj"], S, C, dtyi, d["y0"], d["ystep"], d["ymin"], shape)) == m0))
            a = G.step_omega_to_dtyi(si, sj, d["omega"], d["y0"], d["ystep"], d["ymin"]); b = G.recon_omega_to_dtyi(d["ri"], d["rj"], d["omega"], d["y0"], shape, d["ystep"], d["ymin"])
            goals.append(("step_omega_to_dtyi=recon_omega_to_dtyi", T(a[()]) == T(b[()])))
            # shift and pad
            ny = ivar("ny")
            shift, pad = G.sino_shift_and_pad(d["y0"], ny, d["ymin"], d["ystep"]); pad = pad[()] if isinstance(pad, np.ndarray) else pad
            sh = T(shift); ash = z3.If(sh >= 0, sh, -sh)
            goals.append(("shift", sh == T(ny) / 2 - (T(d["y0"]) - T(d["ymin"])) / T(d["ystep"])))
            goals.append(("pad>=2|shift|+1", T(pad) >= 2 * ash + 1))
            goals.append(("pad<2|shift|+2", T(pad) < 2 * ash + 2))
            goals.append(("pad integer", z3.IsInt(T(pad))))
            # the rotation axis (dty = y0) lands on the centre row after shifting
            goals.append(("axis row + shift = ny/2", (T(d["y0"]) - T(d["ymin"])) / T(d["ystep"]) + sh == T(ny) / 2))
        inp = {k: T(v) for k, v in d.items()}; inp.update(i=T(i), dtyi=T(dtyi), ny=T(ny))
        return dict(goals=goals, inputs=inp, pre=common_pre(d) + [T(ny) >= 1], angle_pairs={"omega": (c, s)})

    def fn_pbp():
        import ImageD11.sinograms.point_by_point as P
        d = sym_inputs()
        f = P.get_voxel_idx.py_func
        c, s = symcore.trig(np.radians(d["omega"]).t); C, S = Sym(c), Sym(s)
        with symbolize(P), symbolize(G):
            idx, ydist = f(d["y0"], d["sx"], d["sy"], np.array([S], dtype=object), np.array([C], dtype=object), np.array([d["dty"]], dtype=object), d["ystep"])
            lx, ly = G.sample_to_lab(d["sx"], d["sy"], d["y0"], d["dty"], d["omega"])
            aly = T(abs(ly))
            goals = [("get_voxel_idx.ydist=|ly|", T(ydist[0]) == aly),
                     ("get_voxel_idx selects iff |ly|<=ystep", z3.BoolVal(len(idx) == 1) == (aly <= T(d["ystep"])))]
        return dict(goals=goals, inputs={k: T(v) for k, v in d.items()}, pre=[T(d["ystep"]) != 0], angle_pairs={"omega": (c, s)})

    # ---- replay of a sat model on the real functions (plain numpy floats)
    def replay(vals, label):
        v = dict(vals)
        for k in ("n0", "n1", "i", "dtyi", "ny"):
            if v.get(k) is not None: v[k] = int(round(v[k]))
        if any(v.get(k) is None for k in ("sx", "sy", "y0", "dty", "omega", "ystep")): return False, "model incomplete"
        shape = (v.get("n0", 4), v.get("n1", 4)); bad = []
        def chk(nm, a, b):
            if not harness.close(float(a), float(b), 1e-7, 1e-7): bad.append("%s: %r != %r" % (nm, float(a), float(b)))
        o = v["omega"]
        pairs = [("lab(sample)", lambda a, b: G.sample_to_lab(a, b, v["y0"], v["dty"], o), lambda a, b: G.lab_to_sample(a, b, v["y0"], v["dty"], o), v["sx"], v["sy"]),
                 ("sample(lab)", lambda a, b: G.lab_to_sample(a, b, v["y0"], v["dty"], o), lambda a, b: G.sample_to_lab(a, b, v["y0"], v["dty"], o), v["lx"], v["ly"]),
                 ("step(sample)", lambda a, b: G.sample_to_step(a, b, v["ystep"]), lambda a, b: G.step_to_sample(a, b, v["ystep"]), v["sx"], v["sy"]),
                 ("recon(step)", lambda a, b: G.step_to_recon(a, b, shape), lambda a, b: G.recon_to_step(a, b, shape), v["si"], v["sj"]),
                 ("recon(sample)", lambda a, b: G.sample_to_recon(a, b, shape, v["ystep"]), lambda a, b: G.recon_to_sample(a, b, shape, v["ystep"]), v["sx"], v["sy"]),
                 ("step(lab)", lambda a, b: G.lab_to_step(a, b, v["y0"], v["dty"], o, v["ystep"]), lambda a, b: G.step_to_lab(a, b, v["y0"], v["dty"], o, v["ystep"]), v["lx"], v["ly"]),
                 ("recon(lab)", lambda a, b: G.lab_to_recon(a, b, v["y0"], v["dty"], o, shape, v["ystep"]), lambda a, b: G.recon_to_lab(a, b, v["y0"], v["dty"], o, shape, v["ystep"]), v["lx"], v["ly"]),
                 ("lab(recon)", lambda a, b: G.recon_to_lab(a, b, v["y0"], v["dty"], o, shape, v["ystep"]), lambda a, b: G.lab_to_recon(a, b, v["y0"], v["dty"], o, shape, v["ystep"]), v["ri"], v["rj"])]
        for nm, f, g, x, y in pairs:
            a, b = g(*f(x, y)); chk(nm + ".0", a, x); chk(nm + ".1", b, y)
        dt = G.dty_values_grain_in_beam(v["sx"], v["sy"], v["y0"], o)
        chk("in_beam_ly=0", G.sample_to_lab(v["sx"], v["sy"], v["y0"], dt, o)[1], 0.0)
        chk("x_y_y0_omega_to_dty", G.x_y_y0_omega_to_dty(o, v["sx"], v["sy"], v["y0"]), dt)
        ds = G.step_omega_to_dty(v["si"], v["sj"], o, v["y0"], v["ystep"]); chk("step_omega_to_dty_ly=0", G.step_to_lab(v["si"], v["sj"], v["y0"], ds, o, v["ystep"])[1], 0.0)
        dr = G.recon_omega_to_dty(v["ri"], v["rj"], o, v["y0"], shape, v["ystep"]); chk("recon_omega_to_dty_ly=0", G.recon_to_lab(v["ri"], v["rj"], v["y0"], dr, o, shape, v["ystep"])[1], 0.0)
        if v.get("i") is not None and v.get("ymin") is not None:
            chk("dtyi(dty(i))=i", G.dty_to_dtyi(G.dtyi_to_dty(v["i"], v["ystep"], v["ymin"]), v["ystep"], v["ymin"]), v["i"])
        if v.get("ny") is not None and v.get("ymin") is not None:
            sh, pad = G.sino_shift_and_pad(v["y0"], v["ny"], v["ymin"], v["ystep"])
            chk("shift", sh, v["ny"] / 2 - (v["y0"] - v["ymin"]) / v["ystep"])
            if not (pad >= 2 * abs(sh) + 1 - 1e-9): bad.append("pad %r < 2|shift|+1 = %r" % (pad, 2 * abs(sh) + 1))
            if not (pad < 2 * abs(sh) + 2 + 1e-9): bad.append("pad %r >= 2|shift|+2" % (pad,))
        import ImageD11.sinograms.point_by_point as P
        so, co = math.sin(math.radians(o)), math.cos(math.radians(o))
        idx, yd = P.get_voxel_idx.py_func(v["y0"], v["sx"], v["sy"], np.array([so]), np.array([co]), np.array([v["dty"]]), v["ystep"])
        chk("get_voxel_idx.ydist=|ly|", yd[0], abs(G.sample_to_lab(v["sx"], v["sy"], v["y0"], v["dty"], o)[1]))
        return (len(bad) > 0), "; ".join(bad[:4]) if bad else "all identities hold numerically at the model point"

    tmo = 20000 if args.tier == "quick" else 120000
    harness.run_identities(ck, "inverse-pairs", fn_inverse, replay, tmo, expect_paths=1)
    harness.run_identities(ck, "in-beam", fn_inbeam, replay, tmo, expect_paths=1)
    harness.run_identities(ck, "discretisation-masks-shift-pad", fn_discrete, replay, tmo, expect_paths=1)
    harness.run_identities(ck, "pbp-get_voxel_idx", fn_pbp, replay, tmo)
    ck.finish("Each conversion function of sinograms/geometry.py is executed on symbolic reals (pysym); every inverse pair, the in-beam "
              "condition (lab y = 0 at the returned dty, for the sample, step and recon entry points), the discretisation round trip, "
              "the agreement of the six dtyimask variants, shift/pad and the numba get_voxel_idx copy are validity queries in z3 "
              "(unsat of the negation = holds for all real inputs, no size bound). Reconstruction (iradon) sentences: not applicable.")

if __name__ == "__main__":
    common.run_main(main)
