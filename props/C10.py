"""
C10 - finite strain tensors are objective, symmetric and exact for known deformations.
Decided by: pysym execution of the real finite_strain.DeformationGradientTensor, grain.eps_* and the tensor_map per-voxel kernels on
a symbolic reference (B0, U0), stretch S0 (symmetric, 6 free reals) and rotation R = Rx.Ry.Rz (three constrained sin/cos pairs);
np.linalg.svd is a contract stub (its factors are fresh symbols; what the code does WITH them is checked); z3 NRA validity queries,
unbounded in all values.
"""
import sys, os
sys.path.insert(0, os.path.join(os.path.dirname(os.path.abspath(__file__)), "..", "lib"))
import z3, numpy as np
from fractions import Fraction
import common, symcore, pysym, harness
from common import Check, parse_args
from pysym import Sym, T, var, symbolize
from symcore import CTX

def pyf(f):
    g = getattr(f, "py_func", None)
    if g is None and hasattr(f, "gufunc_builder"): g = f.gufunc_builder.py_func
    return g or f
def O(rows): return np.array(rows, dtype=object)
def rot(tag):
    """rotation Rx.Ry.Rz from three constrained (cos, sin) pairs - covers SO(3)"""
    cs = []
    for ax in "xyz":
        c, s = z3.Real("c%s_%s" % (ax, tag)), z3.Real("s%s_%s" % (ax, tag)); CTX.hyp.append(c * c + s * s == 1); cs.append((Sym(c), Sym(s)))
    (cx, sx), (cy, sy), (cz, sz) = cs
    Rx = O([[1, 0, 0], [0, cx, -sx], [0, sx, cx]]); Ry = O([[cy, 0, sy], [0, 1, 0], [-sy, 0, cy]]); Rz = O([[cz, -sz, 0], [sz, cz, 0], [0, 0, 1]])
    return np.dot(Rx, np.dot(Ry, Rz)), cs
def symm(tag):
    m = np.empty((3, 3), dtype=object)
    for i in range(3):
        for j in range(i, 3): m[i, j] = m[j, i] = var("%s%d%d" % (tag, i, j))
    return m
def free(tag): return O([[var("%s%d%d" % (tag, i, j)) for j in range(3)] for i in range(3)])
def eqm(name, A, B, sym_only=False):
    return [("%s[%d%d]" % (name, i, j), T(A[i, j]) == T(B[i, j])) for i in range(3) for j in range(i if sym_only else 0, 3)]
def mpow(M, n):
    r = M
    for _ in range(n - 1): r = np.dot(r, M)
    return r
I3 = np.eye(3)

class SVDStub:
    """np.linalg.svd contract stub: fresh factors (w, s, vh); every call and its argument is recorded"""
    def __init__(s): s.calls = []
    def __call__(s, F):
        k = len(s.calls)
        w = free("w%d_" % k); vh = free("vh%d_" % k); sv = np.array([var("sing%d_%d" % (k, i)) for i in range(3)], dtype=object)
        s.calls.append((np.array(F, dtype=object), w, sv, vh)); return w, sv, vh
LOG = z3.Function("log", z3.RealSort(), z3.RealSort())

def patches(FS, stub):
    la = pysym._Linalg(); la.svd = stub
    class NP2(pysym.NPProxy):
        linalg = la
        def log(self, x): return pysym._elementwise(x, lambda v: Sym(LOG(T(v))))
        def diag(self, v):
            v = np.asarray(v, dtype=object)
            if v.ndim == 1:
                m = np.empty((len(v), len(v)), dtype=object); m[...] = 0.0
                for i in range(len(v)): m[i, i] = v[i]
                return m
            return np.diag(v)
        def allclose(self, a, b, **k): return True if pysym._has_sym(a) or pysym._has_sym(b) else np.allclose(a, b, **k)
    la.matrix_power = lambda M, n: (mpow(np.asarray(M, dtype=object), int(n)) if int(n) >= 1 else (_ for _ in ()).throw(NotImplementedError("matrix_power n<1")))
    return NP2()

def main():
    args = parse_args("C10"); ck = Check("C10", args.tier); thorough = args.tier == "thorough"
    import ImageD11.finite_strain as FS, ImageD11.grain as GR, ImageD11.sinograms.tensor_map as TM, ImageD11.unitcell as UC
    ck.encoded("ImageD11/finite_strain.py:DeformationGradientTensor.__init__/SVD/VRS/U/finite_strain_ref/finite_strain_lab", "ImageD11/finite_strain.py:e6_to_symm/symm_to_e6",
               "ImageD11/grain.py:grain.eps_grain_matrix/eps_sample_matrix/eps_grain/eps_sample", "ImageD11/sinograms/tensor_map.py:ubi_and_unitcell_to_eps_sample/_crystal, tensor_crystal_to_sample, tensor_sample_to_crystal (py_func bodies)",
               "ImageD11/sinograms/tensor_map.py:TensorMap.eps_sample/eps_crystal (derived-map routes)")
    ck.bound("unbounded values: reference UB0 free 3x3, stretch S0 symmetric with 6 free entries, rotation R = Rx.Ry.Rz", "Seth-Hill exponents: m = 1 exactly for every rotation and stretch (quick and thorough); m = 2 exactly for pure stretches and, as a stretch obligation, with a symbolic rotation (thorough) - no SVD in that code path; m in {0.5, 1.5, 0} through the SVD contract stub (wiring and symmetry)",
             "m = -1, -0.5 need matrix inverses of symbolic products and are not covered; 'agree to first order for all m' is not covered")
    ck.assume("real-arithmetic model; rotations as products of three axis rotations with constrained sin/cos pairs", "np.linalg.svd is a contract stub returning fresh factors: that w.diag(s).vh = F with orthogonal w, vh is numpy's contract; that vh^T.diag(s).vh is the symmetric "
              "square root of F^T.F is the textbook polar-decomposition theorem (trusted)", "np.log is an uninterpreted function")
    tmo = 60000 if thorough else 20000
    stub = SVDStub(); NP2 = patches(FS, stub)
    def FSpatch(): return pysym.patched((FS, "np", NP2))

    # ---- T1/T2: exact Seth-Hill tensors for even 2m, objectivity, symmetry
    def run_even(m, noR=False):
        def run():
            ubi = free("ubi_"); UB0 = free("ub0_"); S0 = symm("S"); R, cs = rot("r")
            if noR: R = I3 + 0 * R          # pure stretch (no rotation): the degree-8 identities with a symbolic rotation are a stretch obligation
            with FSpatch():
                D = FS.DeformationGradientTensor(ubi, UB0)
                goals = eqm("F = ubi^T.ub0^T", D.F, np.dot(ubi.T, UB0.T))
                # cut point: the deformation gradient is abstracted to F = R.S0 (a grain obtained by stretch S0 and rotation R of the reference)
                D.F = np.dot(R, S0)
                Eref = D.finite_strain_ref(m); Elab = D.finite_strain_lab(m)
            n2 = int(round(2 * m)); want = (mpow(S0, n2) - I3) / n2
            goals += eqm("E_ref(m=%g) = (S0^%d - I)/%d" % (m, n2, n2), Eref, want)
            goals += eqm("E_lab(m=%g) = R.E_ref.R^T" % m, Elab, np.dot(R, np.dot(want, R.T)))
            goals += [("E_ref symmetric [%d%d]" % (i, j), T(Eref[i, j]) == T(Eref[j, i])) for i in range(3) for j in range(i + 1, 3)]
            goals += [("E_lab symmetric [%d%d]" % (i, j), T(Elab[i, j]) == T(Elab[j, i])) for i in range(3) for j in range(i + 1, 3)]
            return dict(goals=goals, inputs={})
        return run
    def run_zero():
        ubi = free("ubi_"); UB0 = free("ub0_"); R, cs = rot("r")
        with FSpatch():
            D = FS.DeformationGradientTensor(ubi, UB0); D.F = R          # S0 = I: the cell equals the reference cell up to a rotation
            E1 = D.finite_strain_ref(1); e1 = D.finite_strain_lab(1); E2 = D.finite_strain_ref(2)
        Z = np.zeros((3, 3))
        return dict(goals=eqm("unstrained: E_ref(1) = 0", E1, Z + 0 * E1) + eqm("unstrained: E_lab(1) = 0", e1, Z + 0 * e1) + eqm("unstrained: E_ref(2) = 0", E2, Z + 0 * E2), inputs={})
    # ---- T3: SVD routes: wiring of the polar decomposition and of the odd / logarithmic tensors
    def run_svd():
        ubi = free("ubi_"); UB0 = free("ub0_"); st = SVDStub(); NPs = patches(FS, st)
        with pysym.patched((FS, "np", NPs)):
            D = FS.DeformationGradientTensor(ubi, UB0); V, Rr, S = D.VRS; U = D.U
            Eh = D.finite_strain_ref(0.5); eh = D.finite_strain_lab(0.5); E15 = D.finite_strain_ref(1.5); e15 = D.finite_strain_lab(1.5); E0 = D.finite_strain_ref(0); e0 = D.finite_strain_lab(0)
        Farg, w, sv, vh = st.calls[0]; dg = np.empty((3, 3), dtype=object); dg[...] = 0.0
        lg = np.empty((3, 3), dtype=object); lg[...] = 0.0
        for i in range(3): dg[i, i] = sv[i]; lg[i, i] = Sym(LOG(T(sv[i])))
        Sw = np.dot(vh.T, np.dot(dg, vh)); Vw = np.dot(w, np.dot(dg, w.T))
        goals = [("svd called once on F", z3.BoolVal(len(st.calls) == 1))] + eqm("svd argument = F = ubi^T.ub0^T", Farg, np.dot(ubi.T, UB0.T))
        goals += eqm("S = vh^T.diag(s).vh", S, Sw) + eqm("V = w.diag(s).w^T", V, Vw) + eqm("R = w.vh", Rr, np.dot(w, vh)) + eqm("U = R", U, Rr)
        goals += eqm("E_ref(0.5) = S - I (Biot)", Eh, Sw - I3) + eqm("E_lab(0.5) = V - I", eh, Vw - I3)
        goals += eqm("E_ref(1.5) = (S^3 - I)/3", E15, (mpow(Sw, 3) - I3) / 3) + eqm("E_lab(1.5) = (V^3 - I)/3", e15, (mpow(Vw, 3) - I3) / 3)
        goals += eqm("E_ref(0) = vh^T.log(s).vh", E0, np.dot(vh.T, np.dot(lg, vh))) + eqm("E_lab(0) = w.log(s).w^T", e0, np.dot(w, np.dot(lg, w.T)))
        goals += [("S symmetric [%d%d]" % (i, j), T(S[i, j]) == T(S[j, i])) for i in range(3) for j in range(i + 1, 3)] + [("V symmetric [%d%d]" % (i, j), T(V[i, j]) == T(V[j, i])) for i in range(3) for j in range(i + 1, 3)]
        return dict(goals=goals, inputs={})
    # ---- T1b: grain wrappers pass the reference grain's UB (not its B) and the reference cell's B
    def run_grain():
        ubi = free("ubi_"); ubi0 = free("ubi0_"); st = SVDStub(); NPs = patches(FS, st)
        CTX.hyp += [T(pysym.det3(ubi)) > 0, T(pysym.det3(ubi0)) > 0]
        with pysym.patched((FS, "np", NPs)), symbolize(GR), symbolize(UC, extra=[(UC, "inv", lambda m: pysym.inv3(np.asarray(m, dtype=object)))]):
            g = GR.grain(ubi); g0 = GR.grain(ubi0)           # through the real constructor (set_ubi / clear_cache)
            Eg = g.eps_grain_matrix(g0, m=1); Es = g.eps_sample_matrix(g0, m=1); e6 = g.eps_grain(g0, m=1); s6 = g.eps_sample(g0, m=1)
        UB0 = pysym.inv3(ubi0); F = np.dot(ubi.T, UB0.T)
        goals = eqm("grain.eps_grain_matrix(ref grain, m=1) = (F^T.F - I)/2 with F = ubi^T.UB0^T", Eg, (np.dot(F.T, F) - I3) / 2)
        goals += eqm("grain.eps_sample_matrix(ref grain, m=1) = (F.F^T - I)/2", Es, (np.dot(F, F.T) - I3) / 2)
        order = [(0, 0), (0, 1), (0, 2), (1, 1), (1, 2), (2, 2)]
        goals += [("eps_grain e6[%d] = E[%d%d]" % (k, i, j), T(e6[k]) == T(Eg[i, j])) for k, (i, j) in enumerate(order)] + [("eps_sample e6[%d] = E[%d%d]" % (k, i, j), T(s6[k]) == T(Es[i, j])) for k, (i, j) in enumerate(order)]
        return dict(goals=goals, inputs={})
    # ---- T1c: the grain object is a history (set_ubi + cached values): after set_ubi every strain equals that of a freshly constructed grain
    def run_grain_history():
        ua = free("ua_"); ub = free("ub_"); st = SVDStub(); NPs = patches(FS, st)
        def diag(p):          # the reference lattices are orthogonal cells here (3 free lengths): the obligations are about WHICH matrices are used, and any comparison a caching layer makes stays cheap
            d = np.empty((3, 3), dtype=object); d[...] = 0.0
            for i in range(3): d[i, i] = var("%s%d" % (p, i)); CTX.hyp.append(T(d[i, i]) > 0)
            return d
        ubi0 = diag("r0_"); ubi1 = diag("r1_")
        CTX.hyp += [T(pysym.det3(ua)) > 0, T(pysym.det3(ub)) > 0]
        with pysym.patched((FS, "np", NPs)), symbolize(GR), symbolize(UC, extra=[(UC, "inv", lambda m: pysym.inv3(np.asarray(m, dtype=object)))]):
            g = GR.grain(ua); g0 = GR.grain(ubi0); f = GR.grain(ub)
            first = [g.eps_grain_matrix(g0, m=1), g.eps_sample_matrix(g0, m=1), g.eps_grain(g0, m=1), g.eps_sample(g0, m=1), g.UB, g.mt]     # fill whatever is cached
            g.set_ubi(ub)
            got = [g.eps_grain_matrix(g0, m=1), g.eps_sample_matrix(g0, m=1), g.eps_grain(g0, m=1), g.eps_sample(g0, m=1), g.UB, g.mt]
            want = [f.eps_grain_matrix(g0, m=1), f.eps_sample_matrix(g0, m=1), f.eps_grain(g0, m=1), f.eps_sample(g0, m=1), f.UB, f.mt]
            g0.set_ubi(ubi1); got2 = g.eps_grain_matrix(g0, m=1); g0f = GR.grain(ubi1); want2 = f.eps_grain_matrix(g0f, m=1)                  # the reference grain changes too
        goals = []
        for nm, a, b in zip(("eps_grain_matrix", "eps_sample_matrix", "eps_grain", "eps_sample", "UB", "mt"), got, want):
            a = np.asarray(a, dtype=object).ravel(); b = np.asarray(b, dtype=object).ravel()
            goals += [("after set_ubi: grain.%s = that of a freshly constructed grain [%d]" % (nm, k), T(a[k]) == T(b[k])) for k in range(len(a))]
        goals += eqm("after set_ubi of the REFERENCE grain: eps_grain_matrix = fresh", got2, want2)
        return dict(goals=goals, inputs={})
    # ---- T4: the vectorised kernels feed the same F to the SVD and post-process it like the grain methods; T5: frame rotations and e6 packing
    def run_tm():
        ubi = free("ubi_"); st = SVDStub()
        cell = [var(n) for n in ("a", "b", "c", "alpha", "beta", "gamma")]; CTX.hyp += [cell[0].t > 0, cell[1].t > 0, cell[2].t > 0]
        for ang in cell[3:]:
            co, si = symcore.trig(np.radians(ang).t); CTX.hyp.append(si > 0)
        la = pysym._Linalg(); la.svd = st
        class NPt(pysym.NPProxy): linalg = la
        NPt.diag = lambda self, v: patches(FS, st).diag(v)
        with pysym.patched((TM, "np", NPt())):
            rs = np.empty((3, 3), dtype=object); pyf(TM.ubi_and_unitcell_to_eps_sample)(ubi, np.array(cell, dtype=object), rs)
            rc = np.empty((3, 3), dtype=object); pyf(TM.ubi_and_unitcell_to_eps_crystal)(ubi, np.array(cell, dtype=object), rc)
        with symbolize(UC, extra=[(UC, "inv", lambda m: pysym.inv3(np.asarray(m, dtype=object)))]):
            B = UC.unitcell(cell, "P").B
        Fref = np.dot(ubi.T, B.T)
        (F1, w1, s1, vh1), (F2, w2, s2, vh2) = st.calls
        d1 = np.empty((3, 3), dtype=object); d1[...] = 0.0; d2 = np.empty((3, 3), dtype=object); d2[...] = 0.0
        for i in range(3): d1[i, i] = s1[i]; d2[i, i] = s2[i]
        goals = eqm("eps_sample kernel: SVD argument = ubi^T.B(cell)^T (the grain route's F)", F1, Fref) + eqm("eps_crystal kernel: SVD argument = ubi^T.B(cell)^T", F2, Fref)
        goals += eqm("eps_sample kernel = V - I", rs, np.dot(w1, np.dot(d1, w1.T)) - I3) + eqm("eps_crystal kernel = S - I", rc, np.dot(vh2.T, np.dot(d2, vh2)) - I3)
        return dict(goals=goals, inputs={k: T(v) for k, v in zip(("a", "b", "c"), cell[:3])})
    def run_rot(only_roundtrip=False):
        Tn = symm("t"); U, cs = rot("u")
        with symbolize(TM):
            a = np.empty((3, 3), dtype=object); pyf(TM.tensor_crystal_to_sample)(Tn, U, a)
            b = np.empty((3, 3), dtype=object); pyf(TM.tensor_sample_to_crystal)(a, U, b)
            c = np.empty((3, 3), dtype=object); pyf(TM.tensor_sample_to_crystal)(Tn, U, c)
        e = np.array([var("e%d" % k) for k in range(6)], dtype=object)
        with symbolize(FS): M = FS.e6_to_symm(e); back = FS.symm_to_e6(M)
        goals = eqm("crystal->sample = U.T.U^T", a, np.dot(U, np.dot(Tn, U.T))) + eqm("sample->crystal = U^T.T.U", c, np.dot(U.T, np.dot(Tn, U)))
        goals += eqm("U^T.U = I for U = Rx.Ry.Rz (so the two maps are mutual inverses)", np.dot(U.T, U), I3 + 0 * U) + eqm("U.U^T = I", np.dot(U, U.T), I3 + 0 * U)
        if only_roundtrip: goals = eqm("sample->crystal(crystal->sample(T)) = T", b, Tn)
        goals += [("symm_to_e6(e6_to_symm(e))[%d]" % k, T(back[k]) == T(e[k])) for k in range(6)] + [("e6_to_symm symmetric [%d%d]" % (i, j), T(M[i, j]) == T(M[j, i])) for i in range(3) for j in range(i + 1, 3)]
        goals += [("e6 order (11,12,13,22,23,33) [%d]" % k, T(M[i, j]) == T(e[k])) for k, (i, j) in enumerate([(0, 0), (0, 1), (0, 2), (1, 1), (1, 2), (2, 2)])]
        return dict(goals=goals, inputs={})
    # ---- T6: TensorMap derived routes rotate in the right direction
    def run_tmap():
        U, cs = rot("u"); Ec = symm("ec"); Es = symm("es")
        def vox(f, shape):
            def g(*arrs):
                res = np.empty(shape, dtype=object); f(*([np.asarray(a, dtype=object)[0, 0, 0] for a in arrs] + [res]))
                out = np.empty((1, 1, 1) + shape, dtype=object); out[0, 0, 0] = res; return out
            return g
        tr = [(TM, "tensor_crystal_to_sample", vox(pyf(TM.tensor_crystal_to_sample), (3, 3))), (TM, "tensor_sample_to_crystal", vox(pyf(TM.tensor_sample_to_crystal), (3, 3)))]
        wrap = lambda M: np.array(M, dtype=object).reshape(1, 1, 1, 3, 3)
        import io, contextlib
        with symbolize(TM, extra=tr), contextlib.redirect_stdout(io.StringIO()):
            t1 = TM.TensorMap(maps={"U": wrap(U), "eps_crystal": wrap(Ec)}); es = t1.eps_sample[0, 0, 0]
            t2 = TM.TensorMap(maps={"U": wrap(U), "eps_sample": wrap(Es)}); ec = t2.eps_crystal[0, 0, 0]
        goals = eqm("TensorMap.eps_sample derived from eps_crystal = U.eps_crystal.U^T", es, np.dot(U, np.dot(Ec, U.T))) + eqm("TensorMap.eps_crystal derived from eps_sample = U^T.eps_sample.U", ec, np.dot(U.T, np.dot(Es, U)))
        return dict(goals=goals, inputs={}, angle_pairs={})
    def replay(vals, label):
        hit, msg = concrete_checks(label)
        return hit, msg
    jobs = [("even-m[m=1]", run_even(1), dict(replay=replay, timeout_ms=tmo, keyfn=lambda n, l: "finite_strain:even-m:" + l.split("[")[0][:30]))]
    if thorough:
        jobs += [("even-m[m=2, pure stretch]", run_even(2, True), dict(replay=replay, timeout_ms=tmo, keyfn=lambda n, l: "finite_strain:even-m:" + l.split("[")[0][:30])),
                 ("even-m[m=2]", run_even(2), dict(replay=replay, timeout_ms=tmo, stretch=True, keyfn=lambda n, l: "finite_strain:even-m:" + l.split("[")[0][:30]))]
    jobs += [("unstrained", run_zero, dict(replay=replay, timeout_ms=tmo, keyfn=lambda n, l: "finite_strain:unstrained")),
             ("svd-routes", run_svd, dict(replay=replay, timeout_ms=tmo, keyfn=lambda n, l: "finite_strain:svd-wiring:" + l.split("[")[0][:30])),
             ("grain-wrappers", run_grain, dict(replay=replay, timeout_ms=tmo, keyfn=lambda n, l: "grain.eps:" + l.split("[")[0][:40])),
             ("grain-set_ubi-history", run_grain_history, dict(replay=replay, timeout_ms=tmo, budget_s=240, keyfn=lambda n, l: "grain.py:set_ubi:stale-cache:" + l.split("=")[0].split(":")[-1].strip()[:30])),
             ("tensor_map-kernels", run_tm, dict(replay=replay, timeout_ms=tmo, keyfn=lambda n, l: "tensor_map.eps-kernel:" + l.split("[")[0][:40])),
             ("frame-rotations-e6", run_rot, dict(replay=replay, timeout_ms=tmo, keyfn=lambda n, l: "tensor_map.rotations:" + l.split("[")[0][:30])),
             ("frame-rotations-roundtrip(monolithic)", lambda: run_rot(True), dict(replay=replay, timeout_ms=(120000 if thorough else 10000), stretch=True)),
             ("TensorMap-derived-strain", run_tmap, dict(replay=replay, timeout_ms=tmo, keyfn=lambda n, l: "tensor_map.py:TensorMap:" + ("eps_sample-from-eps_crystal" if "eps_sample derived" in l else "eps_crystal-from-eps_sample")))]
    harness.run_parallel(ck, jobs)
    ck.finish("With F = R.S0 built from a symbolic reference, stretch and rotation, the real code's even-exponent Seth-Hill tensors equal (S0^2m - I)/2m in the reference frame "
              "and R.(...).R^T in the lab frame for every rotation (objectivity), are symmetric and vanish for S0 = I. For the SVD routes numpy's svd is a contract stub and the "
              "code is shown to build the textbook polar decomposition and the Biot / odd / logarithmic tensors from its factors; the grain wrappers pass UB of a reference "
              "grain; the tensor_map kernels give the SVD the same F and post-process it identically; frame rotations are mutual inverses and TensorMap's derived routes "
              "rotate in the right direction.")

# ------------------------------------------------------------------------------------------------ concrete replay on the real code
def seth_hill(S, m):
    w, v = np.linalg.eigh(S)
    return (v @ np.diag(np.log(w)) @ v.T) if m == 0 else (v @ np.diag((w ** (2 * m) - 1) / (2 * m)) @ v.T)
def concrete_checks(label):
    import ImageD11.grain as GR, ImageD11.unitcell as UC, ImageD11.sinograms.tensor_map as TM, ImageD11.finite_strain as FS, io, contextlib
    from scipy.spatial.transform import Rotation
    rng = np.random.RandomState(11); bad = []
    for cell in ([3.0, 3.0, 3.0, 90, 90, 90], [3.0, 4.0, 5.0, 80, 95, 100], [4.0, 4.0, 4.0, 75, 75, 75]):
        B0 = UC.unitcell(cell, "P").B
        for trial in range(3):
            U0 = Rotation.random(random_state=rng).as_matrix(); R = Rotation.random(random_state=rng).as_matrix()
            A = rng.standard_normal((3, 3)) * 0.03; S0 = np.eye(3) + (A + A.T) / 2
            UB0 = U0 @ B0; F = R @ S0
            ubi = np.linalg.inv(UB0) @ F.T
            g = GR.grain(ubi); g0 = GR.grain(np.linalg.inv(UB0))
            for m in (1, 0.5, 0, 1.5, 2):
                Eref = g.eps_grain_matrix(g0, m); Elab = g.eps_sample_matrix(g0, m)
                want = seth_hill(S0, m)
                if not np.allclose(Eref, want, atol=1e-9): bad.append("grain.eps_grain_matrix(reference grain, m=%g) = %s, Seth-Hill tensor of the applied stretch %s (cell %s)" % (m, np.round(Eref, 6).tolist(), np.round(want, 6).tolist(), cell)); break
                if not np.allclose(Elab, R @ want @ R.T, atol=1e-9): bad.append("grain.eps_sample_matrix(m=%g) is not R.E.R^T (cell %s)" % (m, cell)); break
            # history: the same grain object after set_ubi must answer like a fresh grain
            for ref in (g0, cell):          # one reference per history (a different reference in between could hide a stale cache)
                for m in (1, 0.5):
                    gh = GR.grain(np.linalg.inv(UB0)); _ = gh.eps_grain_matrix(ref, m), gh.eps_sample_matrix(ref, m); gh.set_ubi(ubi)
                    if not np.allclose(gh.eps_grain_matrix(ref, m), g.eps_grain_matrix(ref, m), atol=1e-12) or not np.allclose(gh.eps_sample_matrix(ref, m), g.eps_sample_matrix(ref, m), atol=1e-12):
                        bad.append("grain.set_ubi history: after evaluating the strain and calling set_ubi(new ubi) the same reference (%s) gives %s, a fresh grain(new ubi) gives %s (m=%g, cell %s)" % ("grain" if ref is g0 else "cell", np.round(gh.eps_grain_matrix(ref, m), 6).tolist(), np.round(g.eps_grain_matrix(ref, m), 6).tolist(), m, cell)); break
            # cell reference (U0 = I) and the vectorised kernels
            ubi2 = np.linalg.inv(B0) @ F.T; g2 = GR.grain(ubi2)
            rs = np.zeros((3, 3)); TM.ubi_and_unitcell_to_eps_sample.gufunc_builder.py_func(ubi2, np.array(cell, float), rs)
            rc = np.zeros((3, 3)); TM.ubi_and_unitcell_to_eps_crystal.gufunc_builder.py_func(ubi2, np.array(cell, float), rc)
            if not np.allclose(rs, g2.eps_sample_matrix(cell, 0.5), atol=1e-9): bad.append("tensor_map.ubi_and_unitcell_to_eps_sample differs from grain.eps_sample_matrix for cell %s: %s vs %s" % (cell, np.round(rs, 6).tolist(), np.round(g2.eps_sample_matrix(cell, 0.5), 6).tolist()))
            if not np.allclose(rc, g2.eps_grain_matrix(cell, 0.5), atol=1e-9): bad.append("tensor_map.ubi_and_unitcell_to_eps_crystal differs from grain.eps_grain_matrix for cell %s" % cell)
            # TensorMap derived routes (pure-stretch case: the polar rotation equals the grain U)
            Ec = seth_hill(S0, 0.5); Ug = R
            with contextlib.redirect_stdout(io.StringIO()):
                t1 = TM.TensorMap(maps={"U": Ug.reshape(1, 1, 1, 3, 3), "eps_crystal": Ec.reshape(1, 1, 1, 3, 3)}); es = t1.eps_sample[0, 0, 0]
            if not np.allclose(es, Ug @ Ec @ Ug.T, atol=1e-9): bad.append("TensorMap.eps_sample derived from an eps_crystal map is %s but rotating the crystal-frame tensor into the sample frame (U.eps.U^T) gives %s" % (np.round(es, 6).tolist(), np.round(Ug @ Ec @ Ug.T, 6).tolist()))
            if bad: return True, bad[0]
    return False, "real code agrees with the Seth-Hill reference on the confirmation family"

if __name__ == "__main__":
    common.run_main(main)
