"""
C05 - two indexed reflections determine the correct orientation (Busing-Levy).
Decided by: llsym execution of quickorient from clang IR of src/cdiffraction.c and pysym execution of unitcell.BTmat, sharing one
sqrt context, for a symbolic upper-triangular B, concrete non-collinear hkl pairs and ALL g-vector pairs whose Gram matrix equals that
of (B.h1, B.h2) - i.e. every rotation of the crystal.  The end-to-end statement (UBI.g1 = h1, UBI.g2 = h2, UBI.UBI^T = metric of the
cell, det > 0) is discharged through cut-point lemmas (orthonormal triads, components of g2 in the triad) glued by congruence.
Candidate selection (second sentence of C05), logic part: the real unitcell.orient is executed on symbolic g-vectors and an arbitrary ascending cosine table
(which candidates reach quickorient: the nearest cosine / all within crange; with which vectors and BT matrices; what reaches ubi_equiv), and the real ubi_equiv
on n arbitrary candidate matrices (every dropped candidate is equivalent to a kept one, kept ones are pairwise inequivalent, under the function's own score).
filter_pairs (floating-point clustering of the cosines of a concrete lattice) is not covered - see DESIGN.md.
"""
import sys, os
sys.path.insert(0, os.path.join(os.path.dirname(os.path.abspath(__file__)), "..", "lib"))
import z3, numpy as np
from fractions import Fraction
import common, symcore, pysym, harness, llsym
from common import Check, parse_args
from llsym import Module, Interp, Ptr, mkobj, rd, snapshot
from pysym import Sym, T, var, symbolize
from symcore import CTX, to_real

PAIRS = [((1, 0, 0), (0, 1, 0)), ((1, 1, 0), (1, -1, 0)), ((1, 1, 1), (1, -1, 1)), ((2, 0, 0), (0, 0, 2)), ((1, 0, 1), (0, 2, 1)), ((1, 2, 3), (3, -1, 1)),
         ((2, 1, 0), (-2, 1, 0)), ((0, 0, 1), (1, 0, 1)), ((1, 1, 0), (0, 1, 1)), ((2, 2, 0), (0, 2, 2)), ((3, 1, 1), (1, 3, 1)), ((1, 0, 0), (1, 1, 0))]

def dot3(a, b): return sum(a[i] * b[i] for i in range(3))
def cross3(a, b): return [a[1] * b[2] - a[2] * b[1], a[2] * b[0] - a[0] * b[2], a[0] * b[1] - a[1] * b[0]]
def det9(m): return m[0] * (m[4] * m[8] - m[5] * m[7]) - m[1] * (m[3] * m[8] - m[5] * m[6]) + m[2] * (m[3] * m[7] - m[4] * m[6])

def setup(UC, h1, h2):
    """symbolic B (upper triangular, positive diagonal) with BI constrained by B.BI = I; g1, g2 with the Gram matrix of (B.h1, B.h2)"""
    b = {k: z3.Real("B%s" % k) for k in ("00", "01", "02", "11", "12", "22")}; bi = {k: z3.Real("BI%s" % k) for k in ("00", "01", "02", "11", "12", "22")}
    Bz = [[b["00"], b["01"], b["02"]], [0, b["11"], b["12"]], [0, 0, b["22"]]]; BIz = [[bi["00"], bi["01"], bi["02"]], [0, bi["11"], bi["12"]], [0, 0, bi["22"]]]
    CTX.hyp += [b["00"] > 0, b["11"] > 0, b["22"] > 0]
    for i in range(3):
        for j in range(i, 3): CTX.hyp.append(sum(to_real(Bz[i][k]) * to_real(BIz[k][j]) for k in range(3)) == (1 if i == j else 0))
    B = np.array([[Sym(to_real(x)) for x in row] for row in Bz], dtype=object); BI = np.array([[Sym(to_real(x)) for x in row] for row in BIz], dtype=object)
    g1 = [z3.Real("g1_%d" % i) for i in range(3)]; g2 = [z3.Real("g2_%d" % i) for i in range(3)]
    c1 = [T(x) for x in np.dot(B, np.array(h1, dtype=object))]; c2 = [T(x) for x in np.dot(B, np.array(h2, dtype=object))]
    CTX.hyp += [dot3(g1, g1) == dot3(c1, c1), dot3(g1, g2) == dot3(c1, c2), dot3(g2, g2) == dot3(c2, c2)]
    return B, BI, Bz, BIz, g1, g2, c1, c2

def main():
    args = parse_args("C05"); ck = Check("C05", args.tier); thorough = args.tier == "thorough"
    ir = common.build_ir(["cdiffraction"]); mod = Module(); mod.load(ir["cdiffraction"])
    import ImageD11.unitcell as UC
    ck.encoded("src/cdiffraction.c:quickorient (clang IR)", "ImageD11/unitcell.py:BTmat, unit, norm2 (pysym)", "ImageD11/unitcell.py:orient_BL (independent reference, thorough)", "ImageD11/unitcell.py:unitcell.getanglehkls (cache wiring from an arbitrary cached state)",
               "ImageD11/unitcell.py:unitcell.orient (pysym; getanglehkls / quickorient / linalg.inv / ubi_equiv as recording stubs)", "ImageD11/unitcell.py:ubi_equiv (pysym, uninterpreted products)")
    pairs = PAIRS if thorough else PAIRS[:5]
    ck.bound("hkl pairs %s (concrete, non-collinear, incl. same-ring pairs); B: every upper-triangular matrix with positive diagonal (= every cell); g1, g2: every pair of real vectors with the Gram matrix of (B.h1, B.h2) (= every crystal orientation)" % (pairs,),
             "candidate selection: unitcell.orient with cosine tables of 1..3 (thorough 4) candidate pairs (nearest-cosine mode) and 1..2 (thorough 3) pairs with a symbolic crange > 0; ubi_equiv with 1..2 (thorough 3) arbitrary candidate matrices",
             "filter_pairs (which hkl pairs of a concrete lattice share an angle: floating-point clustering of cosines at 1e-8, compiled score / quickorient on concrete data) is NOT covered")
    ck.assume("g1 != 0 and g1 x g2 != 0 (non-collinear reflections: the two divisions of quickorient are by non-zero lengths)", "real-arithmetic model; sqrt(x) = r with r >= 0, r^2 = x shared between the C and the Python side", "BI is constrained by B.BI = I (6 polynomial equations) instead of being computed",
              "the end-to-end identities follow from the lemmas by congruence: UBI = BT.M, M.g1 = (|g1|,0,0), M.g2 = (a,w,0) with the same a, w as the crystal triad gives for B.h2")
    ck.stub("orient harness: getanglehkls returns an arbitrary strictly ascending cosine table with opaque hkl pairs / BT matrices; cImageD11.quickorient records its arguments and fills UBI with fresh symbols; np.linalg.inv and ubi_equiv record their arguments (ubi_equiv itself is executed in its own harness)",
            "ubi_equiv harness: products of two symbolic reals are the uninterpreted commutative umul (the claim is about the selection logic for EVERY value of the scores, a superset of the real behaviours); np.linalg.inv(ubi_i) returns the given UB_i (the caller passes ublist[i] = inv(ubilist[i])); rounding = exact round-half-even via ToInt (n <= 2) or a fresh real within 1/2 (n = 3)")
    tmo = 60000 if thorough else 30000

    def run_A():
        """the observed triad: quickorient on ARBITRARY non-collinear g1, g2 and an arbitrary BT"""
        g1 = [z3.Real("g1_%d" % i) for i in range(3)]; g2 = [z3.Real("g2_%d" % i) for i in range(3)]; BTz = [z3.Real("bt%d" % i) for i in range(9)]
        it = Interp(mod); it.assume_fdiv_nonzero = True
        ubi = mkobj(it, "UBI", list(g1) + list(g2) + [Fraction(0)] * 3, "double", "inout"); bt = mkobj(it, "BT", list(BTz), "double", "const")
        it.call("quickorient", [Ptr(ubi, 0), Ptr(bt, 0)])
        M = [to_real(x) for x in snapshot(it.lastframe["M"], 9)]; t0 = to_real(rd(it.lastframe["t0"], 0)); t1 = to_real(rd(it.lastframe["t1"], 0)); out = [to_real(x) for x in snapshot(ubi, 9)]
        rows = [M[0:3], M[3:6], M[6:9]]; cr = cross3(g1, g2)
        goals = [("no-memory-event", z3.BoolVal(not it.events))]
        goals += [("A1 M.g1 = (|g1|,0,0) [%d]" % i, dot3(rows[i], g1) == (t0 if i == 0 else 0)) for i in range(3)]
        goals += [("A1 t0^2 = |g1|^2", t0 * t0 == dot3(g1, g1)), ("A1 t0 > 0", t0 > 0)]
        a_g = dot3(rows[0], g2); w_g = dot3(rows[1], g2)
        goals += [("A2 (M.g2)_0 . |g1| = g1.g2", a_g * t0 == dot3(g1, g2)), ("A2 (M.g2)_2 = 0", dot3(rows[2], g2) == 0),
                  ("A2 (M.g2)_1 . |g1| = -|g1 x g2|", w_g * t0 == -t1), ("A2 t1^2 = |g1 x g2|^2", t1 * t1 == dot3(cr, cr)), ("A2 t1 > 0", t1 > 0),
                  ("L Lagrange |x x y|^2 = |x|^2 |y|^2 - (x.y)^2", dot3(cr, cr) == dot3(g1, g1) * dot3(g2, g2) - dot3(g1, g2) * dot3(g1, g2))]
        goals += [("A4 M.M^T = I [%d%d]" % (i, j), dot3(rows[i], rows[j]) == (1 if i == j else 0)) for i in range(3) for j in range(i, 3)]
        goals += [("A5 det M = -1", det9(M) == -1)]
        goals += [("A3 UBI_out = BT.M [%d%d]" % (i, j), out[3 * i + j] == sum(BTz[3 * i + k] * M[3 * k + j] for k in range(3))) for i in range(3) for j in range(3)]
        inputs = {"g1_%d" % i: g1[i] for i in range(3)}; inputs.update({"g2_%d" % i: g2[i] for i in range(3)})
        return dict(goals=goals, inputs=inputs)
    def run_Btriad():
        """the crystal triad: the real BTmat (unit / np.cross) on ARBITRARY non-collinear cartesian vectors c1, c2 with B = BI = identity"""
        c1 = [z3.Real("c1_%d" % i) for i in range(3)]; c2 = [z3.Real("c2_%d" % i) for i in range(3)]
        I = np.array([[Sym(z3.RealVal(1 if i == j else 0)) for j in range(3)] for i in range(3)], dtype=object)
        with symbolize(UC):
            BT0 = UC.BTmat(np.array([Sym(x) for x in c1], dtype=object), np.array([Sym(x) for x in c2], dtype=object), I, I)
        Tz = [T(x) for x in BT0.ravel()]; U1, U2, U3 = [Tz[0], Tz[3], Tz[6]], [Tz[1], Tz[4], Tz[7]], [Tz[2], Tz[5], Tz[8]]
        cr = cross3(c1, c2); n1 = symcore.sqrt_(dot3(c1, c1)); n3 = symcore.sqrt_(dot3(cr, cr)); CTX.hyp += [n1 > 0, n3 > 0]
        a_c = dot3(U1, c2); w_c = dot3(U2, c2)
        goals = [("B1 [u1 u2 u3].(|c1|,0,0) = c1 [%d]" % i, U1[i] * n1 == c1[i]) for i in range(3)]
        goals += [("B2 u2.|c1|.|c1 x c2| = c1 (c1.c2) - c2 |c1|^2 [%d]" % i, U2[i] * n1 * n3 == c1[i] * dot3(c1, c2) - c2[i] * dot3(c1, c1)) for i in range(3)]
        goals += [("B2 a.|c1| = c1.c2", a_c * n1 == dot3(c1, c2)), ("B2 u3.c2 = 0", dot3(U3, c2) == 0), ("B2 w.|c1| = -|c1 x c2|", w_c * n1 == -n3)]
        goals += [("B3 crystal triad orthonormal [%d%d]" % (i, j), dot3([U1, U2, U3][i], [U1, U2, U3][j]) == (1 if i == j else 0)) for i in range(3) for j in range(i, 3)]
        goals += [("B4 det(crystal triad) = -1", det9(Tz) == -1)]
        inputs = {"c1_%d" % i: c1[i] for i in range(3)}; inputs.update({"c2_%d" % i: c2[i] for i in range(3)})
        return dict(goals=goals, inputs=inputs)
    def mk_B(h1, h2):
        def run():
            B, BI, Bz, BIz, g1, g2, c1, c2 = setup(UC, h1, h2)
            for i in range(3):
                for j in range(3): CTX.hyp.append(sum(to_real(BIz[i][k]) * to_real(Bz[k][j]) for k in range(3)) == (1 if i == j else 0))     # BI is the two-sided inverse
            I = np.array([[Sym(z3.RealVal(1 if i == j else 0)) for j in range(3)] for i in range(3)], dtype=object)
            with symbolize(UC):
                BT = UC.BTmat(np.array(h1, dtype=object), np.array(h2, dtype=object), B, BI)
                BT0 = UC.BTmat(np.array([Sym(x) for x in c1], dtype=object), np.array([Sym(x) for x in c2], dtype=object), I, I)
            W = np.dot(BI, BT0)
            goals = [("B0 BTmat(h1,h2,B,BI) = BI.[u1 u2 u3](B.h1,B.h2) [%d%d]" % (i, j), T(BT[i, j]) == T(W[i, j])) for i in range(3) for j in range(3)]
            goals += [("B5 BI.(B.h1) = h1 [%d]" % i, sum(to_real(BIz[i][k]) * c1[k] for k in range(3)) == h1[i]) for i in range(3)]
            goals += [("B5 BI.(B.h2) = h2 [%d]" % i, sum(to_real(BIz[i][k]) * c2[k] for k in range(3)) == h2[i]) for i in range(3)]
            goals += [("B6 B.h1, B.h2 not collinear", z3.Or([x != 0 for x in cross3(c1, c2)]))]
            inputs = {"B%d%d" % (i, j): to_real(Bz[i][j]) for i in range(3) for j in range(i, 3)}
            return dict(goals=goals, inputs=inputs, h=(h1, h2))
        return run
    def run_glue():
        """congruence step on the lemma conclusions: equal Gram data give equal triad components, hence UBI.g = BT.(M.g) = BI.(a u1 + w u2) = BI.(B.h) = h"""
        t0, n1, t1, n3, ag, ac, wg, wc, p11, p12, p22 = [z3.Real(n) for n in ("t0", "n1", "t1", "n3", "a_g", "a_c", "w_g", "w_c", "p11", "p12", "p22")]
        CTX.hyp += [p11 > 0, t0 > 0, n1 > 0, t1 > 0, n3 > 0, t0 * t0 == p11, n1 * n1 == p11, t1 * t1 == p11 * p22 - p12 * p12, n3 * n3 == p11 * p22 - p12 * p12,
                    ag * t0 == p12, ac * n1 == p12, wg * t0 == -t1, wc * n1 == -n3]
        goals = [("G |g1| = |B.h1|", t0 == n1), ("G |g1 x g2| = |B.h1 x B.h2|", t1 == n3), ("G a_g = a_c", ag == ac), ("G w_g = w_c", wg == wc)]
        # expansion of c2 in the crystal triad from the component lemmas (one cartesian component, fresh scalars): a.u1 + w.u2 = c2
        u1, u2, x1, x2 = [z3.Real(n) for n in ("u1_i", "u2_i", "c1_i", "c2_i")]
        CTX.hyp += [u1 * n1 == x1, u2 * n1 * n3 == x1 * p12 - x2 * p11]
        goals.append(("G a.u1 + w.u2 = c2 (componentwise, from B1/B2 lemmas)", ac * u1 + wc * u2 == x2))
        return dict(goals=goals, inputs={})
    def mk_replay(h1, h2):
        def replay(vals, label):
            return concrete_orient(h1, h2)
        return replay
    jobs = []
    for part in range(4):
        def runA(part=part):
            r = run_A(); r["goals"] = r["goals"][part::4]; return r
        jobs.append(("observed-triad /%d" % part, runA, dict(replay=mk_replay(*PAIRS[4]), timeout_ms=tmo, keyfn=lambda n, l: "orientation:" + l.split("[")[0][:40])))
    jobs.append(("glue", run_glue, dict(replay=None, timeout_ms=tmo)))
    for part in range(3):
        def runBt(part=part):
            r = run_Btriad(); r["goals"] = r["goals"][part::3]; return r
        jobs.append(("crystal-triad /%d" % part, runBt, dict(replay=mk_replay(*PAIRS[4]), timeout_ms=tmo, keyfn=lambda n, l: "orientation:" + l.split("[")[0][:40])))
    for h1, h2 in pairs:
        for part in range(2):
            def run(h1=h1, h2=h2, part=part):
                r = mk_B(h1, h2)(); r["goals"] = r["goals"][part::2]; return r
            jobs.append(("BT-wiring hkl %s,%s /%d" % (h1, h2, part), run, dict(replay=mk_replay(h1, h2), timeout_ms=tmo, keyfn=lambda n, l: "orientation:" + l.split("[")[0][:40])))
    def run_cache():
        """getanglehkls from an ARBITRARY cached state: the table handed back for (ring1, ring2) is the cached one only for exactly that key,
        otherwise it is computed from the hkls of ring1 and ring2 in this order and stored under that key (wiring: object identities)"""
        goals = []
        for r1 in range(3):
            for r2 in range(3):
                uc = object.__new__(UC.unitcell); uc.ringtol = 0.001; uc.B = np.eye(3); uc.gi = np.eye(3)
                uc.ringds = [0.5, 0.7, 0.9]; H = {0.5: object(), 0.7: object(), 0.9: object()}; uc.ringhkls = H
                sent = {(a, b): ("cached", a, b) for a in range(3) for b in range(3) if (a, b) != (r1, r2)}
                uc.anglehkl_cache = dict(sent); uc.anglehkl_cache.update(ringtol=uc.ringtol, B=uc.B, BI=np.eye(3))
                calls = []; FRESH = ("fresh",)
                def cm(h1, h2, gi): calls.append(("cos", h1, h2, gi)); return "cangs"
                def fp(h1, h2, c, B, BI): calls.append(("filter", h1, h2, c)); return FRESH
                with pysym.patched((UC, "cosangles_many", cm), (UC, "filter_pairs", fp)):
                    v1 = uc.getanglehkls(r1, r2); v2 = uc.getanglehkls(r1, r2); others = [uc.getanglehkls(a, b) is sent[(a, b)] for (a, b) in sent]
                ok = v1 is FRESH and v2 is FRESH and len(calls) == 2 and calls[0][1] is H[uc.ringds[r1]] and calls[0][2] is H[uc.ringds[r2]] and calls[1][1] is H[uc.ringds[r1]] and calls[1][2] is H[uc.ringds[r2]] \
                    and calls[1][3] == "cangs" and uc.anglehkl_cache.get((r1, r2)) is FRESH and all(others)
                goals.append(("W getanglehkls(%d, %d): computed from (hkls of ring1, hkls of ring2), cached under exactly that key, other keys untouched" % (r1, r2), z3.BoolVal(bool(ok))))
        return dict(goals=goals, inputs={})
    def replay_cache(vals, label):
        u = UC.unitcell([4.1, 4.1, 4.1, 90, 90, 90], "F"); u.makerings(1.2)
        for r1 in range(min(3, len(u.ringds))):
            for r2 in range(min(3, len(u.ringds))):
                if r1 == r2: continue
                u.getanglehkls(r2, r1); got = u.getanglehkls(r1, r2)
                f = UC.unitcell([4.1, 4.1, 4.1, 90, 90, 90], "F"); f.makerings(1.2); want = f.getanglehkls(r1, r2)
                if len(got[0]) != len(want[0]) or any(not np.array_equal(np.asarray(a), np.asarray(b)) for a, b in zip(got[0], want[0])):
                    return True, "unitcell F 4.1: getanglehkls(%d,%d) after getanglehkls(%d,%d) returns hkl pairs %s..., a fresh object returns %s..." % (r1, r2, r2, r1, [np.asarray(x).tolist() for x in got[0][:1]], [np.asarray(x).tolist() for x in want[0][:1]])
        return False, "cache keyed correctly on the real object"
    jobs.append(("getanglehkls-cache", run_cache, dict(replay=replay_cache, timeout_ms=tmo, keyfn=lambda n, l: "unitcell.py:getanglehkls:cache-key")))

    # ------------------------------------------------------------------------------------------ candidate selection (second sentence, logic part)
    def mk_orient(n, crange_sym):
        """the real unitcell.orient on symbolic g1, g2 and an arbitrary strictly ascending cosine table of n candidate hkl pairs (getanglehkls, quickorient,
        linalg.inv and ubi_equiv are recording stubs): WHICH candidates are handed to quickorient, with which vectors / BT matrices, and what reaches ubi_equiv"""
        def run():
            g1 = pysym.vec("g1_", 3); g2 = pysym.vec("g2_", 3)
            c = [z3.Real("c%d" % i) for i in range(n)]
            for i in range(n - 1): CTX.hyp.append(c[i] < c[i + 1])
            for x in c: CTX.hyp += [x >= -1, x <= 1]
            c2ab = np.array([Sym(x) for x in c], dtype=object).view(pysym.SymArray)
            hab = [(("h1", i), ("h2", i)) for i in range(n)]; matrs = [("BT", i) for i in range(n)]
            uc = object.__new__(UC.unitcell); uc.getanglehkls = lambda r1, r2: (hab, c2ab, matrs) if (r1, r2) == (3, 5) else None
            calls = []; invs = []; eq = []
            class CI:
                @staticmethod
                def quickorient(UBI, BT):
                    calls.append(([T(x) for x in np.asarray(UBI, dtype=object)[:2].ravel()], BT)); k = len(calls)
                    for i in range(3):
                        for j in range(3): UBI[i, j] = Sym(z3.Real("ubi%d_%d%d" % (k, i, j)))
            class LA:
                def __getattr__(s, k): return getattr(np.linalg, k)
                def inv(s, m): invs.append(m); return ("inv", len(invs) - 1)
            class NP2(pysym.NPProxyMaskIdx): linalg = LA()
            def ue(ubis, ubs): eq.append((list(ubis), list(ubs))); return ("uniq", list(ubis))
            cr = z3.Real("crange")
            if crange_sym: CTX.hyp.append(cr > 0)
            with symbolize(UC, extra=[(UC, "np", NP2()), (UC, "cImageD11", CI), (UC, "ubi_equiv", ue)]):
                uc.orient(3, g1, 5, g2, crange=Sym(cr) if crange_sym else -1.)
            G1 = [T(x) for x in g1]; G2 = [T(x) for x in g2]
            nn = symcore.sqrt_(dot3(G1, G1) * dot3(G2, G2)); cos = dot3(G1, G2) / nn
            best = [bt[1] for _, bt in calls]
            goals = []
            if crange_sym:
                for j in range(n):
                    goals.append(("S candidate %d tried  =>  |c_%d - cos| <= crange" % (j, j), z3.Implies(z3.BoolVal(j in best), symcore.zabs(c[j] - cos) <= cr)))
                    goals.append(("S |c_%d - cos| < crange  =>  candidate %d tried" % (j, j), z3.Implies(symcore.zabs(c[j] - cos) < cr, z3.BoolVal(j in best))))
                goals.append(("S candidates tried once each, in table order", z3.BoolVal(best == sorted(set(best)))))
            else:
                goals.append(("S exactly one candidate tried", z3.BoolVal(len(best) == 1)))
                if len(best) == 1:
                    for j in range(n): goals.append(("S chosen candidate is a nearest cosine (vs %d)" % j, symcore.zabs(c[best[0]] - cos) <= symcore.zabs(c[j] - cos)))
            okw = all(bt == ("BT", b) for (_, bt), b in zip(calls, best))
            goals.append(("W quickorient gets the BT matrix of the chosen pair", z3.BoolVal(okw)))
            for k, (rows, _) in enumerate(calls):
                for i in range(3): goals.append(("W UBI row 0 = g1, row 1 = g2 on entry [call %d, %d]" % (k, i), z3.And(rows[i] == G1[i], rows[3 + i] == G2[i])))
            wired = len(eq) == 1 and len(eq[0][0]) == len(calls) and len(invs) == len(calls) and all(eq[0][0][k] is invs[k] for k in range(len(calls))) \
                and eq[0][1] == [("inv", k) for k in range(len(calls))] and uc.UBIlist == ("uniq", eq[0][0]) \
                and all(T(eq[0][0][k][i, j]).eq(z3.Real("ubi%d_%d%d" % (k + 1, i, j))) for k in range(len(calls)) for i in range(3) for j in range(3))
            goals.append(("W every oriented candidate and its inverse reach ubi_equiv (same order), UBIlist = its result", z3.BoolVal(bool(wired))))
            inputs = {"c%d" % i: c[i] for i in range(n)}; inputs["cos"] = cos
            if crange_sym: inputs["crange"] = cr
            return dict(goals=goals, inputs=inputs)
        return run
    def mk_equiv(n, rmode):
        """the real ubi_equiv on n arbitrary matrices (products abstracted by the uninterpreted commutative umul; np.linalg.inv(ubi_i) = the given UB_i)"""
        def run():
            pysym.MULMODE[0] = "uf"; symcore.RNE_MODE[0] = rmode
            try:
                ubis = [pysym.mat("u%d_" % i) for i in range(n)]; ubs = [pysym.mat("b%d_" % i) for i in range(n)]
                class LA:
                    def __getattr__(s, k): return getattr(np.linalg, k)
                    def inv(s, m):
                        for i, u in enumerate(ubis):
                            if m is u: return ubs[i]
                        raise RuntimeError("inv of a matrix that is not one of the candidates")
                class NP2(pysym.NPProxy): linalg = LA()
                with symbolize(UC, extra=[(UC, "np", NP2())]):
                    out = UC.ubi_equiv(list(ubis), list(ubs))
                idx = []
                for o in out:
                    hit = [i for i, u in enumerate(ubis) if o is u]; idx.append(hit[0] if hit else None)
                tr = [T(u[0, 0] + u[1, 1] + u[2, 2]) for u in ubis]; tol = z3.RealVal(Fraction(1e-8))
                def score(i, j):
                    hc = np.dot(ubis[i], np.dot(ubs[j], UC.HKL0)); d = pysym.NP.round(hc) - hc; return T(sum(abs(x) for x in np.asarray(d, dtype=object).ravel()))
                goals = [("E output members are distinct input candidates", z3.BoolVal(None not in idx and len(set(idx)) == len(idx) and len(idx) >= min(n, 1)))]
                if None not in idx and idx:
                    for i in range(n): goals.append(("E the first kept candidate has the largest trace (vs %d)" % i, tr[idx[0]] >= tr[i]))
                    for i in range(n):
                        if i in idx: continue
                        goals.append(("E dropped candidate %d is equivalent (all HKL0 reflections integer within tol) to a kept one" % i, z3.Or([score(i, j) <= tol for j in idx])))
                    for a in range(len(idx)):
                        for b in range(a + 1, len(idx)): goals.append(("E kept candidates %d, %d are not equivalent" % (idx[a], idx[b]), score(idx[b], idx[a]) > tol))
                return dict(goals=goals, inputs={})
            finally:
                pysym.MULMODE[0] = "nra"; symcore.RNE_MODE[0] = "toint"
        return run
    kf = lambda n, l: "unitcell.py:orient/ubi_equiv:" + l.split("(")[0].split("[")[0].strip()[:50]
    for n in ((1, 2, 3) if not thorough else (1, 2, 3, 4)):
        jobs.append(("orient-select n=%d nearest" % n, mk_orient(n, False), dict(replay=replay_orient, timeout_ms=tmo, keyfn=kf)))
    for n in ((1, 2) if not thorough else (1, 2, 3)):
        jobs.append(("orient-select n=%d crange" % n, mk_orient(n, True), dict(replay=replay_orient, timeout_ms=tmo, keyfn=kf)))
    for n, rmode in (((1, "toint"), (2, "toint")) if not thorough else ((1, "toint"), (2, "toint"), (3, "fresh"))):
        jobs.append(("ubi_equiv n=%d (%s rounding)" % (n, rmode), mk_equiv(n, rmode), dict(replay=replay_equiv, timeout_ms=tmo, keyfn=kf)))
    harness.run_parallel(ck, jobs)
    # the end-to-end statements as stretch obligations (monolithic)
    if thorough:
        def mono(h1, h2):
            def run():
                B, BI, Bz, BIz, g1, g2, c1, c2 = setup(UC, h1, h2)
                with symbolize(UC): BT = UC.BTmat(np.array(h1, dtype=object), np.array(h2, dtype=object), B, BI)
                it = Interp(mod); it.assume_fdiv_nonzero = True; ubi = mkobj(it, "UBI", list(g1) + list(g2) + [Fraction(0)] * 3, "double", "inout"); bt = mkobj(it, "BT", [T(x) for x in BT.ravel()], "double", "const")
                it.call("quickorient", [Ptr(ubi, 0), Ptr(bt, 0)]); out = [to_real(x) for x in snapshot(ubi, 9)]
                goals = [("UBI.g1 = h1 [%d]" % i, dot3(out[3 * i:3 * i + 3], g1) == h1[i]) for i in range(3)] + [("UBI.g2 = h2 [%d]" % i, dot3(out[3 * i:3 * i + 3], g2) == h2[i]) for i in range(3)]
                return dict(goals=goals, inputs={})
            return run
        harness.run_parallel(ck, [("monolithic %s,%s" % p, mono(*p), dict(replay=None, timeout_ms=60000, stretch=True)) for p in pairs[:3]])
    ck.finish("quickorient (from clang IR) and BTmat (real Python) are executed on a symbolic cell and on symbolic g-vector pairs constrained only by their Gram matrix. "
              "Lemmas discharged per hkl pair: the observed triad M is orthonormal with M.g1 = (|g1|,0,0), M.g2 = (a,w,0); UBI_out = BT.M; BT = BI.Tc with an orthonormal "
              "crystal triad of the same handedness, BT.(|B.h1|,0,0) = h1 and BT.(a,w,0) = h2 with the same a, w. By congruence UBI.g1 = h1, UBI.g2 = h2, UBI.UBI^T = BI.BI^T "
              "(the cell's metric) and det UBI = det BI > 0 for every cell and every orientation.")

def concrete_orient(h1, h2):
    """real unitcell/BTmat + the rebuilt quickorient on random cells and rotations"""
    import ctypes as C, ImageD11.unitcell as UC, creplay
    from scipy.spatial.transform import Rotation
    L = creplay.lib(); rng = np.random.RandomState(2)
    for cell in ([3, 3, 3, 90, 90, 90], [3, 4, 5, 90, 90, 90], [3, 4, 5, 80, 95, 100], [4, 4, 6, 90, 90, 120]):
        uc = UC.unitcell(cell, "P"); B = uc.B; BI = np.linalg.inv(B)
        for trial in range(3):
            U = Rotation.random(random_state=rng).as_matrix()
            g1 = U @ B @ np.array(h1, float); g2 = U @ B @ np.array(h2, float)
            BT = np.ascontiguousarray(UC.BTmat(np.array(h1, float), np.array(h2, float), B, BI))
            ubi = np.zeros((3, 3)); ubi[0] = g1; ubi[1] = g2
            L.quickorient(creplay.dptr(ubi), creplay.dptr(BT))
            if not (np.allclose(ubi @ g1, h1, atol=1e-8) and np.allclose(ubi @ g2, h2, atol=1e-8)): return True, "quickorient/BTmat with hkl %s,%s, cell %s: UBI.g1 = %s, UBI.g2 = %s" % (h1, h2, cell, (ubi @ g1).round(6).tolist(), (ubi @ g2).round(6).tolist())
            if not np.allclose(ubi @ ubi.T, BI @ BI.T, atol=1e-8): return True, "UBI.UBI^T is not the metric tensor of cell %s for hkl %s,%s" % (cell, h1, h2)
            if np.linalg.det(ubi) <= 0: return True, "left-handed UBI for hkl %s,%s cell %s" % (h1, h2, cell)
            if not np.allclose(ubi, np.linalg.inv(U @ B), atol=1e-8): return True, "UBI is not the generating orientation for hkl %s,%s cell %s" % (h1, h2, cell)
    return False, "real code recovers the generating orientation on the confirmation family"

def _equiv_spec(ubis, out, tol=1e-8):
    """the specification of ubi_equiv evaluated concretely: out is a sub-list of ubis, every dropped candidate is equivalent to a kept one, kept ones pairwise inequivalent"""
    import ImageD11.unitcell as UC
    def eqv(a, b):
        h = np.dot(a, np.dot(np.linalg.inv(b), UC.HKL0)); return np.abs(np.round(h) - h).sum() <= max(tol, 1e-6)
    ids = [[k for k, u in enumerate(ubis) if o is u or np.array_equal(o, u)] for o in out]
    if any(not i for i in ids): return "an output matrix is not one of the candidates"
    for k, u in enumerate(ubis):
        if not any(eqv(u, o) for o in out): return "candidate %d (trace %.4f) is not equivalent to any kept orientation (%d kept of %d)" % (k, np.trace(u), len(out), len(ubis))
    for a in range(len(out)):
        for b in range(a + 1, len(out)):
            if eqv(out[a], out[b]): return "kept orientations %d and %d are equivalent" % (a, b)
    return None
def replay_equiv(vals, label):
    import itertools, ImageD11.unitcell as UC
    from scipy.spatial.transform import Rotation
    rng = np.random.RandomState(5); B = np.eye(3) / 4.0
    for trial in range(6):
        U0 = Rotation.random(random_state=rng).as_matrix(); U1 = Rotation.random(random_state=rng).as_matrix()
        R90 = np.array([[0., -1, 0], [1, 0, 0], [0, 0, 1]]); R3 = np.array([[0., 0, 1], [1, 0, 0], [0, 1, 0]])
        base = [np.linalg.inv(U0 @ B), R90 @ np.linalg.inv(U0 @ B), np.linalg.inv(U1 @ B), R3 @ np.linalg.inv(U1 @ B)]
        for r in (1, 2, 3, 4):
            for sel in itertools.permutations(range(4), r):
                ubis = [base[i].copy() for i in sel]; out = UC.ubi_equiv(list(ubis), [np.linalg.inv(u) for u in ubis])
                bad = _equiv_spec(ubis, out)
                if bad: return True, "ubi_equiv on %d cubic candidates (two orientations and symmetry copies, order %s): %s" % (r, sel, bad)
    return False, "ubi_equiv meets its specification on the confirmation family"
def replay_orient(vals, label):
    """real unitcell.orient (compiled quickorient from the repository build) on ideal g-vector pairs of random orientations: the generating orientation must be (equivalent to) a returned candidate"""
    import ImageD11.unitcell as UC, math
    from scipy.spatial.transform import Rotation
    # (1) the solver's own cosine table and observed cosine, driven through the real orient with a recording wrapper around the real quickorient
    cs = [vals.get("c%d" % i) for i in range(8) if vals.get("c%d" % i) is not None]; cos = vals.get("cos"); cr = vals.get("crange")
    tables = [(cs, cos, cr)] if cs and cos is not None and abs(cos) <= 1 else []
    tables += [([-0.5, 0.0, 0.5], 0.25, None), ([-0.5, 0.0, 0.5], -0.25, None), ([-0.5, 0.0, 0.5], 0.3, None), ([-0.5, 0.0, 0.5], 0.2, None), ([-0.5, 0.1, 0.5], 0.8, None), ([-0.5, 0.1, 0.5], -0.9, None),
               ([0.0, 0.5], 0.25, 0.3), ([0.0, 0.5], 0.25, 0.2), ([-0.2, 0.2], 0.0, 0.25), ([0.1], 0.3, None), ([0.1], 0.3, 0.1)]
    real = UC.cImageD11
    for cs, cos, cr in tables:
        uc = UC.unitcell([4., 4., 4., 90, 90, 90], "P"); BTs = [UC.BTmat(np.array([1., 0, 0]), np.array([0., 1, k]), uc.B, np.linalg.inv(uc.B)) for k in range(len(cs))]
        uc.getanglehkls = lambda r1, r2: ([((1, 0, 0), (0, 1, k)) for k in range(len(cs))], np.array(cs, float), BTs)
        used = []
        class Rec:
            def __getattr__(s, k): return getattr(real, k)
            def quickorient(s, UBI, BT):
                used.append([k for k, b in enumerate(BTs) if b is BT or np.array_equal(b, BT)]); return real.quickorient(UBI, BT)
        g1 = np.array([0.25, 0, 0]); g2 = 0.3 * np.array([cos, math.sqrt(max(0.0, 1 - cos * cos)), 0.0])
        with pysym.patched((UC, "cImageD11", Rec())):
            uc.orient(0, g1, 1, g2, crange=(cr if cr is not None else -1.))
        tried = [u[0] for u in used if u]; d = [abs(c - cos) for c in cs]
        if cr is None:
            if len(tried) != 1 or d[tried[0]] > min(d) + 1e-12:
                return True, "orient(crange<0) with cosine table %s and observed cosine %r tries candidate(s) %s; the nearest is %d" % (cs, cos, tried, int(np.argmin(d)))
        else:
            want = [k for k in range(len(cs)) if d[k] < cr]; edge = any(abs(d[k] - cr) < 1e-12 for k in range(len(cs)))
            if tried != want and not edge:
                return True, "orient(crange=%r) with cosine table %s and observed cosine %r tries candidates %s, expected %s" % (cr, cs, cos, tried, want)
    # (2) ideal pairs of random orientations on real cells
    rng = np.random.RandomState(11)
    for cell, sym in (([4.1, 4.1, 4.1, 90, 90, 90], "F"), ([3, 3, 5, 90, 90, 90], "P"), ([4, 4, 6, 90, 90, 120], "P")):
        uc = UC.unitcell(cell, sym); uc.makerings(1.4)
        nr = min(5, len(uc.ringds))
        for trial in range(8):
            U = Rotation.random(random_state=rng).as_matrix(); UB = U @ uc.B; r1, r2 = rng.choice(nr, 2, replace=False)
            H1 = uc.ringhkls[uc.ringds[r1]]; H2 = uc.ringhkls[uc.ringds[r2]]
            h1 = np.array(H1[rng.randint(len(H1))], float); cands = [h for h in H2 if abs(abs(np.dot(uc.B @ h1, uc.B @ np.array(h, float))) / np.linalg.norm(uc.B @ h1) / np.linalg.norm(uc.B @ np.array(h, float))) < 0.95]
            if not cands: continue
            h2 = np.array(cands[rng.randint(len(cands))], float); g1 = UB @ h1; g2 = UB @ h2
            for crange in (-1., 0.01):
                uc.orient(r1, g1, r2, g2, crange=crange); lst = list(uc.UBIlist)
                if not lst: return True, "orient(ring %d, ring %d, crange=%g) on an ideal pair of cell %s returned no candidate" % (r1, r2, crange, cell)
                good = []
                for ubi in lst:
                    m = ubi @ UB; good.append(bool(np.abs(m - np.round(m)).max() < 1e-6 and abs(abs(np.linalg.det(m)) - 1) < 1e-6))
                if crange > 0 and not any(good):
                    return True, "orient(ring %d, ring %d, crange=%g), cell %s %s, hkls %s %s: none of the %d candidates is the generating orientation (up to lattice symmetry)" % (r1, r2, crange, cell, sym, h1.tolist(), h2.tolist(), len(lst))
                bad = _equiv_spec(lst, lst)
                if bad and len(lst) > 1: return True, "orient(crange=%g) cell %s: %s" % (crange, cell, bad)
    return False, "orient returns the generating orientation on the confirmation family"

if __name__ == "__main__":
    common.run_main(main)
