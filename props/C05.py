"""
C05 - two indexed reflections determine the correct orientation (Busing-Levy).
Decided by: llsym execution of quickorient from clang IR of src/cdiffraction.c and pysym execution of unitcell.BTmat, sharing one
sqrt context, for a symbolic upper-triangular B, concrete non-collinear hkl pairs and ALL g-vector pairs whose Gram matrix equals that
of (B.h1, B.h2) - i.e. every rotation of the crystal.  The end-to-end statement (UBI.g1 = h1, UBI.g2 = h2, UBI.UBI^T = metric of the
cell, det > 0) is discharged through cut-point lemmas (orthonormal triads, components of g2 in the triad) glued by congruence.
The candidate-list sentence of C05 (filter_pairs / ubi_equiv) is not applicable - see DESIGN.md.
"""
import sys, os
sys.path.insert(0, os.path.join(os.path.dirname(os.path.abspath(__file__)), "..", "lib"))
import z3, numpy as np
from fractions import Fraction
import common, symcore, pysym, harness, llsym
from common import Check, parse_args
from llsym import Module, Interp, Ptr, mkobj, rd, snapshot
from pysym import Sym, T, var, symbolize
from symcore import CTX, to_real

PAIRS = [((1, 0, 0), (0, 1, 0)), ((1, 1, 0), (1, -1, 0)), ((1, 1, 1), (1, -1, 1)), ((2, 0, 0), (0, 0, 2)), ((1, 0, 1), (0, 2, 1)), ((1, 2, 3), (3, -1, 1)),
         ((2, 1, 0), (-2, 1, 0)), ((0, 0, 1), (1, 0, 1)), ((1, 1, 0), (0, 1, 1)), ((2, 2, 0), (0, 2, 2)), ((3, 1, 1), (1, 3, 1)), ((1, 0, 0), (1, 1, 0))]

def dot3(a, b): return sum(a[i] * b[i] for i in range(3))
def cross3(a, b): return [a[1] * b[2] - a[2] * b[1], a[2] * b[0] - a[0] * b[2], a[0] * b[1] - a[1] * b[0]]
def det9(m): return m[0] * (m[4] * m[8] - m[5] * m[7]) - m[1] * (m[3] * m[8] - m[5] * m[6]) + m[2] * (m[3] * m[7] - m[4] * m[6])

def setup(UC, h1, h2):
    """symbolic B (upper triangular, positive diagonal) with BI constrained by B.BI = I; g1, g2 with the Gram matrix of (B.h1, B.h2)"""
    b = {k: z3.Real("B%s" % k) for k in ("00", "01", "02", "11", "12", "22")}; bi = {k: z3.Real("BI%s" % k) for k in ("00", "01", "02", "11", "12", "22")}
    Bz = [[b["00"], b["01"], b["02"]], [0, b["11"], b["12"]], [0, 0, b["22"]]]; BIz = [[bi["00"], bi["01"], bi["02"]], [0, bi["11"], bi["12"]], [0, 0, bi["22"]]]
    CTX.hyp += [b["00"] > 0, b["11"] > 0, b["22"] > 0]
    for i in range(3):
        for j in range(i, 3): CTX.hyp.append(sum(to_real(Bz[i][k]) * to_real(BIz[k][j]) for k in range(3)) == (1 if i == j else 0))
    B = np.array([[Sym(to_real(x)) for x in row] for row in Bz], dtype=object); BI = np.array([[Sym(to_real(x)) for x in row] for row in BIz], dtype=object)
    g1 = [z3.Real("g1_%d" % i) for i in range(3)]; g2 = [z3.Real("g2_%d" % i) for i in range(3)]
    c1 = [T(x) for x in np.dot(B, np.array(h1, dtype=object))]; c2 = [T(x) for x in np.dot(B, np.array(h2, dtype=object))]
    CTX.hyp += [dot3(g1, g1) == dot3(c1, c1), dot3(g1, g2) == dot3(c1, c2), dot3(g2, g2) == dot3(c2, c2)]
    return B, BI, Bz, BIz, g1, g2, c1, c2

def main():
    args = parse_args("C05"); ck = Check("C05", args.tier); thorough = args.tier == "thorough"
    ir = common.build_ir(["cdiffraction"]); mod = Module(); mod.load(ir["cdiffraction"])
    import ImageD11.unitcell as UC
    ck.encoded("src/cdiffraction.c:quickorient (clang IR)", "ImageD11/unitcell.py:BTmat, unit, norm2 (pysym)", "ImageD11/unitcell.py:orient_BL (independent reference, thorough)", "ImageD11/unitcell.py:unitcell.getanglehkls (cache wiring from an arbitrary cached state)")
    pairs = PAIRS if thorough else PAIRS[:5]
    ck.bound("hkl pairs %s (concrete, non-collinear, incl. same-ring pairs); B: every upper-triangular matrix with positive diagonal (= every cell); g1, g2: every pair of real vectors with the Gram matrix of (B.h1, B.h2) (= every crystal orientation)" % (pairs,),
             "the candidate-list sentence (several hkl pairs with the same angle: filter_pairs / ubi_equiv / getanglehkls) is NOT covered")
    ck.assume("g1 != 0 and g1 x g2 != 0 (non-collinear reflections: the two divisions of quickorient are by non-zero lengths)", "real-arithmetic model; sqrt(x) = r with r >= 0, r^2 = x shared between the C and the Python side", "BI is constrained by B.BI = I (6 polynomial equations) instead of being computed",
              "the end-to-end identities follow from the lemmas by congruence: UBI = BT.M, M.g1 = (|g1|,0,0), M.g2 = (a,w,0) with the same a, w as the crystal triad gives for B.h2")
    tmo = 60000 if thorough else 30000

    def run_A():
        """the observed triad: quickorient on ARBITRARY non-collinear g1, g2 and an arbitrary BT"""
        g1 = [z3.Real("g1_%d" % i) for i in range(3)]; g2 = [z3.Real("g2_%d" % i) for i in range(3)]; BTz = [z3.Real("bt%d" % i) for i in range(9)]
        it = Interp(mod); it.assume_fdiv_nonzero = True
        ubi = mkobj(it, "UBI", list(g1) + list(g2) + [Fraction(0)] * 3, "double", "inout"); bt = mkobj(it, "BT", list(BTz), "double", "const")
        it.call("quickorient", [Ptr(ubi, 0), Ptr(bt, 0)])
        M = [to_real(x) for x in snapshot(it.lastframe["M"], 9)]; t0 = to_real(rd(it.lastframe["t0"], 0)); t1 = to_real(rd(it.lastframe["t1"], 0)); out = [to_real(x) for x in snapshot(ubi, 9)]
        rows = [M[0:3], M[3:6], M[6:9]]; cr = cross3(g1, g2)
        goals = [("no-memory-event", z3.BoolVal(not it.events))]
        goals += [("A1 M.g1 = (|g1|,0,0) [%d]" % i, dot3(rows[i], g1) == (t0 if i == 0 else 0)) for i in range(3)]
        goals += [("A1 t0^2 = |g1|^2", t0 * t0 == dot3(g1, g1)), ("A1 t0 > 0", t0 > 0)]
        a_g = dot3(rows[0], g2); w_g = dot3(rows[1], g2)
        goals += [("A2 (M.g2)_0 . |g1| = g1.g2", a_g * t0 == dot3(g1, g2)), ("A2 (M.g2)_2 = 0", dot3(rows[2], g2) == 0),
                  ("A2 (M.g2)_1 . |g1| = -|g1 x g2|", w_g * t0 == -t1), ("A2 t1^2 = |g1 x g2|^2", t1 * t1 == dot3(cr, cr)), ("A2 t1 > 0", t1 > 0),
                  ("L Lagrange |x x y|^2 = |x|^2 |y|^2 - (x.y)^2", dot3(cr, cr) == dot3(g1, g1) * dot3(g2, g2) - dot3(g1, g2) * dot3(g1, g2))]
        goals += [("A4 M.M^T = I [%d%d]" % (i, j), dot3(rows[i], rows[j]) == (1 if i == j else 0)) for i in range(3) for j in range(i, 3)]
        goals += [("A5 det M = -1", det9(M) == -1)]
        goals += [("A3 UBI_out = BT.M [%d%d]" % (i, j), out[3 * i + j] == sum(BTz[3 * i + k] * M[3 * k + j] for k in range(3))) for i in range(3) for j in range(3)]
        inputs = {"g1_%d" % i: g1[i] for i in range(3)}; inputs.update({"g2_%d" % i: g2[i] for i in range(3)})
        return dict(goals=goals, inputs=inputs)
    def run_Btriad():
        """the crystal triad: the real BTmat (unit / np.cross) on ARBITRARY non-collinear cartesian vectors c1, c2 with B = BI = identity"""
        c1 = [z3.Real("c1_%d" % i) for i in range(3)]; c2 = [z3.Real("c2_%d" % i) for i in range(3)]
        I = np.array([[Sym(z3.RealVal(1 if i == j else 0)) for j in range(3)] for i in range(3)], dtype=object)
        with symbolize(UC):
            BT0 = UC.BTmat(np.array([Sym(x) for x in c1], dtype=object), np.array([Sym(x) for x in c2], dtype=object), I, I)
        Tz = [T(x) for x in BT0.ravel()]; U1, U2, U3 = [Tz[0], Tz[3], Tz[6]], [Tz[1], Tz[4], Tz[7]], [Tz[2], Tz[5], Tz[8]]
        cr = cross3(c1, c2); n1 = symcore.sqrt_(dot3(c1, c1)); n3 = symcore.sqrt_(dot3(cr, cr)); CTX.hyp += [n1 > 0, n3 > 0]
        a_c = dot3(U1, c2); w_c = dot3(U2, c2)
        goals = [("B1 [u1 u2 u3].(|c1|,0,0) = c1 [%d]" % i, U1[i] * n1 == c1[i]) for i in range(3)]
        goals += [("B2 u2.|c1|.|c1 x c2| = c1 (c1.c2) - c2 |c1|^2 [%d]" % i, U2[i] * n1 * n3 == c1[i] * dot3(c1, c2) - c2[i] * dot3(c1, c1)) for i in range(3)]
        goals += [("B2 a.|c1| = c1.c2", a_c * n1 == dot3(c1, c2)), ("B2 u3.c2 = 0", dot3(U3, c2) == 0), ("B2 w.|c1| = -|c1 x c2|", w_c * n1 == -n3)]
        goals += [("B3 crystal triad orthonormal [%d%d]" % (i, j), dot3([U1, U2, U3][i], [U1, U2, U3][j]) == (1 if i == j else 0)) for i in range(3) for j in range(i, 3)]
        goals += [("B4 det(crystal triad) = -1", det9(Tz) == -1)]
        inputs = {"c1_%d" % i: c1[i] for i in range(3)}; inputs.update({"c2_%d" % i: c2[i] for i in range(3)})
        return dict(goals=goals, inputs=inputs)
    def mk_B(h1, h2):
        def run():
            B, BI, Bz, BIz, g1, g2, c1, c2 = setup(UC, h1, h2)
            for i in range(3):
                for j in range(3): CTX.hyp.append(sum(to_real(BIz[i][k]) * to_real(Bz[k][j]) for k in range(3)) == (1 if i == j else 0))     # BI is the two-sided inverse
            I = np.array([[Sym(z3.RealVal(1 if i == j else 0)) for j in range(3)] for i in range(3)], dtype=object)
            with symbolize(UC):
                BT = UC.BTmat(np.array(h1, dtype=object), np.array(h2, dtype=object), B, BI)
                BT0 = UC.BTmat(np.array([Sym(x) for x in c1], dtype=object), np.array([Sym(x) for x in c2], dtype=object), I, I)
            W = np.dot(BI, BT0)
            goals = [("B0 BTmat(h1,h2,B,BI) = BI.[u1 u2 u3](B.h1,B.h2) [%d%d]" % (i, j), T(BT[i, j]) == T(W[i, j])) for i in range(3) for j in range(3)]
            goals += [("B5 BI.(B.h1) = h1 [%d]" % i, sum(to_real(BIz[i][k]) * c1[k] for k in range(3)) == h1[i]) for i in range(3)]
            goals += [("B5 BI.(B.h2) = h2 [%d]" % i, sum(to_real(BIz[i][k]) * c2[k] for k in range(3)) == h2[i]) for i in range(3)]
            goals += [("B6 B.h1, B.h2 not collinear", z3.Or([x != 0 for x in cross3(c1, c2)]))]
            inputs = {"B%d%d" % (i, j): to_real(Bz[i][j]) for i in range(3) for j in range(i, 3)}
            return dict(goals=goals, inputs=inputs, h=(h1, h2))
        return run
    def run_glue():
        """congruence step on the lemma conclusions: equal Gram data give equal triad components, hence UBI.g = BT.(M.g) = BI.(a u1 + w u2) = BI.(B.h) = h"""
        t0, n1, t1, n3, ag, ac, wg, wc, p11, p12, p22 = [z3.Real(n) for n in ("t0", "n1", "t1", "n3", "a_g", "a_c", "w_g", "w_c", "p11", "p12", "p22")]
        CTX.hyp += [p11 > 0, t0 > 0, n1 > 0, t1 > 0, n3 > 0, t0 * t0 == p11, n1 * n1 == p11, t1 * t1 == p11 * p22 - p12 * p12, n3 * n3 == p11 * p22 - p12 * p12,
                    ag * t0 == p12, ac * n1 == p12, wg * t0 == -t1, wc * n1 == -n3]
        goals = [("G |g1| = |B.h1|", t0 == n1), ("G |g1 x g2| = |B.h1 x B.h2|", t1 == n3), ("G a_g = a_c", ag == ac), ("G w_g = w_c", wg == wc)]
        # expansion of c2 in the crystal triad from the component lemmas (one cartesian component, fresh scalars): a.u1 + w.u2 = c2
        u1, u2, x1, x2 = [z3.Real(n) for n in ("u1_i", "u2_i", "c1_i", "c2_i")]
        CTX.hyp += [u1 * n1 == x1, u2 * n1 * n3 == x1 * p12 - x2 * p11]
        goals.append(("G a.u1 + w.u2 = c2 (componentwise, from B1/B2 lemmas)", ac * u1 + wc * u2 == x2))
        return dict(goals=goals, inputs={})
    def mk_replay(h1, h2):
        def replay(vals, label):
            return concrete_orient(h1, h2)
        return replay
    jobs = []
    for part in range(4):
        def runA(part=part):
            r = run_A(); r["goals"] = r["goals"][part::4]; return r
        jobs.append(("observed-triad /%d" % part, runA, dict(replay=mk_replay(*PAIRS[4]), timeout_ms=tmo, keyfn=lambda n, l: "orientation:" + l.split("[")[0][:40])))
    jobs.append(("glue", run_glue, dict(replay=None, timeout_ms=tmo)))
    for part in range(3):
        def runBt(part=part):
            r = run_Btriad(); r["goals"] = r["goals"][part::3]; return r
        jobs.append(("crystal-triad /%d" % part, runBt, dict(replay=mk_replay(*PAIRS[4]), timeout_ms=tmo, keyfn=lambda n, l: "orientation:" + l.split("[")[0][:40])))
    for h1, h2 in pairs:
        for part in range(2):
            def run(h1=h1, h2=h2, part=part):
                r = mk_B(h1, h2)(); r["goals"] = r["goals"][part::2]; return r
            jobs.append(("BT-wiring hkl %s,%s /%d" % (h1, h2, part), run, dict(replay=mk_replay(h1, h2), timeout_ms=tmo, keyfn=lambda n, l: "orientation:" + l.split("[")[0][:40])))
    def run_cache():
        """getanglehkls from an ARBITRARY cached state: the table handed back for (ring1, ring2) is the cached one only for exactly that key,
        otherwise it is computed from the hkls of ring1 and ring2 in this order and stored under that key (wiring: object identities)"""
        goals = []
        for r1 in range(3):
            for r2 in range(3):
                uc = object.__new__(UC.unitcell); uc.ringtol = 0.001; uc.B = np.eye(3); uc.gi = np.eye(3)
                uc.ringds = [0.5, 0.7, 0.9]; H = {0.5: object(), 0.7: object(), 0.9: object()}; uc.ringhkls = H
                sent = {(a, b): ("cached", a, b) for a in range(3) for b in range(3) if (a, b) != (r1, r2)}
                uc.anglehkl_cache = dict(sent); uc.anglehkl_cache.update(ringtol=uc.ringtol, B=uc.B, BI=np.eye(3))
                calls = []; FRESH = ("fresh",)
                def cm(h1, h2, gi): calls.append(("cos", h1, h2, gi)); return "cangs"
                def fp(h1, h2, c, B, BI): calls.append(("filter", h1, h2, c)); return FRESH
                with pysym.patched((UC, "cosangles_many", cm), (UC, "filter_pairs", fp)):
                    v1 = uc.getanglehkls(r1, r2); v2 = uc.getanglehkls(r1, r2); others = [uc.getanglehkls(a, b) is sent[(a, b)] for (a, b) in sent]
                ok = v1 is FRESH and v2 is FRESH and len(calls) == 2 and calls[0][1] is H[uc.ringds[r1]] and calls[0][2] is H[uc.ringds[r2]] and calls[1][1] is H[uc.ringds[r1]] and calls[1][2] is H[uc.ringds[r2]] \
                    and calls[1][3] == "cangs" and uc.anglehkl_cache.get((r1, r2)) is FRESH and all(others)
                goals.append(("W getanglehkls(%d, %d): computed from (hkls of ring1, hkls of ring2), cached under exactly that key, other keys untouched" % (r1, r2), z3.BoolVal(bool(ok))))
        return dict(goals=goals, inputs={})
    def replay_cache(vals, label):
        u = UC.unitcell([4.1, 4.1, 4.1, 90, 90, 90], "F"); u.makerings(1.2)
        for r1 in range(min(3, len(u.ringds))):
            for r2 in range(min(3, len(u.ringds))):
                if r1 == r2: continue
                u.getanglehkls(r2, r1); got = u.getanglehkls(r1, r2)
                f = UC.unitcell([4.1, 4.1, 4.1, 90, 90, 90], "F"); f.makerings(1.2); want = f.getanglehkls(r1, r2)
                if len(got[0]) != len(want[0]) or any(not np.array_equal(np.asarray(a), np.asarray(b)) for a, b in zip(got[0], want[0])):
                    return True, "unitcell F 4.1: getanglehkls(%d,%d) after getanglehkls(%d,%d) returns hkl pairs %s..., a fresh object returns %s..." % (r1, r2, r2, r1, [np.asarray(x).tolist() for x in got[0][:1]], [np.asarray(x).tolist() for x in want[0][:1]])
        return False, "cache keyed correctly on the real object"
    jobs.append(("getanglehkls-cache", run_cache, dict(replay=replay_cache, timeout_ms=tmo, keyfn=lambda n, l: "unitcell.py:getanglehkls:cache-key")))
    harness.run_parallel(ck, jobs)
    # the end-to-end statements as stretch obligations (monolithic)
    if thorough:
        def mono(h1, h2):
            def run():
                B, BI, Bz, BIz, g1, g2, c1, c2 = setup(UC, h1, h2)
                with symbolize(UC): BT = UC.BTmat(np.array(h1, dtype=object), np.array(h2, dtype=object), B, BI)
                it = Interp(mod); it.assume_fdiv_nonzero = True; ubi = mkobj(it, "UBI", list(g1) + list(g2) + [Fraction(0)] * 3, "double", "inout"); bt = mkobj(it, "BT", [T(x) for x in BT.ravel()], "double", "const")
                it.call("quickorient", [Ptr(ubi, 0), Ptr(bt, 0)]); out = [to_real(x) for x in snapshot(ubi, 9)]
                goals = [("UBI.g1 = h1 [%d]" % i, dot3(out[3 * i:3 * i + 3], g1) == h1[i]) for i in range(3)] + [("UBI.g2 = h2 [%d]" % i, dot3(out[3 * i:3 * i + 3], g2) == h2[i]) for i in range(3)]
                return dict(goals=goals, inputs={})
            return run
        harness.run_parallel(ck, [("monolithic %s,%s" % p, mono(*p), dict(replay=None, timeout_ms=60000, stretch=True)) for p in pairs[:3]])
    ck.finish("quickorient (from clang IR) and BTmat (real Python) are executed on a symbolic cell and on symbolic g-vector pairs constrained only by their Gram matrix. "
              "Lemmas discharged per hkl pair: the observed triad M is orthonormal with M.g1 = (|g1|,0,0), M.g2 = (a,w,0); UBI_out = BT.M; BT = BI.Tc with an orthonormal "
              "crystal triad of the same handedness, BT.(|B.h1|,0,0) = h1 and BT.(a,w,0) = h2 with the same a, w. By congruence UBI.g1 = h1, UBI.g2 = h2, UBI.UBI^T = BI.BI^T "
              "(the cell's metric) and det UBI = det BI > 0 for every cell and every orientation.")

def concrete_orient(h1, h2):
    """real unitcell/BTmat + the rebuilt quickorient on random cells and rotations"""
    import ctypes as C, ImageD11.unitcell as UC, creplay
    from scipy.spatial.transform import Rotation
    L = creplay.lib(); rng = np.random.RandomState(2)
    for cell in ([3, 3, 3, 90, 90, 90], [3, 4, 5, 90, 90, 90], [3, 4, 5, 80, 95, 100], [4, 4, 6, 90, 90, 120]):
        uc = UC.unitcell(cell, "P"); B = uc.B; BI = np.linalg.inv(B)
        for trial in range(3):
            U = Rotation.random(random_state=rng).as_matrix()
            g1 = U @ B @ np.array(h1, float); g2 = U @ B @ np.array(h2, float)
            BT = np.ascontiguousarray(UC.BTmat(np.array(h1, float), np.array(h2, float), B, BI))
            ubi = np.zeros((3, 3)); ubi[0] = g1; ubi[1] = g2
            L.quickorient(creplay.dptr(ubi), creplay.dptr(BT))
            if not (np.allclose(ubi @ g1, h1, atol=1e-8) and np.allclose(ubi @ g2, h2, atol=1e-8)): return True, "quickorient/BTmat with hkl %s,%s, cell %s: UBI.g1 = %s, UBI.g2 = %s" % (h1, h2, cell, (ubi @ g1).round(6).tolist(), (ubi @ g2).round(6).tolist())
            if not np.allclose(ubi @ ubi.T, BI @ BI.T, atol=1e-8): return True, "UBI.UBI^T is not the metric tensor of cell %s for hkl %s,%s" % (cell, h1, h2)
            if np.linalg.det(ubi) <= 0: return True, "left-handed UBI for hkl %s,%s cell %s" % (h1, h2, cell)
            if not np.allclose(ubi, np.linalg.inv(U @ B), atol=1e-8): return True, "UBI is not the generating orientation for hkl %s,%s cell %s" % (h1, h2, cell)
    return False, "real code recovers the generating orientation on the confirmation family"

if __name__ == "__main__":
    common.run_main(main)
