"""
C13 - local-maximum labelling follows steepest ascent for every thread count and buffer history.
Decided by: llsym execution of neighbormax / localmaxlabel / sparse_localmaxlabel from clang IR on symbolic images
(every ordering pattern of the pixels that the kernels can distinguish is a solver-checked path set), footprint (alias)
queries for the two `parallel for` row loops, and bounded interleaving exploration (2 abstract threads, sequentially
consistent memory, context-switch bound) of the hand-rolled parallel region from the real -fopenmp IR with symbolic stale
buffer contents.
"""
import sys, os, itertools, subprocess, json
sys.path.insert(0, os.path.join(os.path.dirname(os.path.abspath(__file__)), "..", "lib"))
import z3, numpy as np
from fractions import Fraction
import common, symcore, harness, llsym, creplay
from common import Check, parse_args
from llsym import Module, Interp, Ptr, mkobj, outobj, symobj, rd, snapshot
from symcore import CTX, EX

def offsets(nf): return [0, -1 - nf, -1, -1 + nf, -nf, 0, nf, 1 - nf, 1, 1 + nf]

def oracle_dense(img, ns, nf):
    """steepest ascent labels for a concrete image (list of numbers); returns (labels, npeaks). borders 0."""
    interior = lambda p: 0 < p // nf < ns - 1 and 0 < p % nf < nf - 1
    def up(p):
        best = p
        for di in (-1, 0, 1):
            for dj in (-1, 0, 1):
                q = p + di * nf + dj
                if img[q] > img[best]: best = q
        return best
    maxima = [p for p in range(ns * nf) if interior(p) and up(p) == p]
    lab = {p: n + 1 for n, p in enumerate(maxima)}      # numbered in raster order
    out = [0] * (ns * nf)
    for p in range(ns * nf):
        if not interior(p): continue
        q = p
        while interior(q) and up(q) != q: q = up(q)
        out[p] = lab[q] if interior(q) else 0
    return out, len(maxima)

def distinct_hyp(px, ns, nf):
    h = []
    for a in range(ns * nf):
        for b in range(a + 1, ns * nf):
            if abs(a // nf - b // nf) <= 2 and abs(a % nf - b % nf) <= 2: h.append(px[a] != px[b])
    return h

# ------------------------------------------------------------------------------------------------ sequential harnesses
def make_nbmax_run(mod, ns, nf):
    def run():
        it = Interp(mod); im = symobj(it, "im", ns * nf, "float", "const"); px = [im.get(k) for k in range(ns * nf)]
        CTX.hyp += distinct_hyp(px, ns, nf)
        lout = outobj(it, "lout", ns * nf, "i32", "inout"); l = outobj(it, "l", ns * nf, "i8", "inout")
        ret = it.call("neighbormax", [Ptr(im, 0), Ptr(lout, 0), Ptr(l, 0), ns, nf])
        return dict(px=px, l=snapshot(l, ns * nf, 1), lout=snapshot(lout, ns * nf, 4), ret=ret, events=list(it.events))
    return run
def on_nbmax_path(ns, nf):
    o = offsets(nf)
    def f(res, pc, hyp, taken, status):
        if res is None: return dict(bad=["path ended: " + status], nq=0)
        bad = []; nq = 0; px = res["px"]; base = list(hyp) + list(pc); nmax = 0
        for p in range(ns * nf):
            i, j = divmod(p, nf); k = res["l"][p]
            if i in (0, ns - 1) or j in (0, nf - 1):
                if k != 0: bad.append("border pixel %d has direction %r" % (p, k))
                continue
            if not isinstance(k, int) or not 1 <= k <= 9: bad.append("pixel %d direction %r" % (p, k)); continue
            tgt = p + o[k]; nmax += (k == 5)
            win = [p + di * nf + dj for di in (-1, 0, 1) for dj in (-1, 0, 1)]
            r, _ = common.solve(base + [z3.Or([px[q] > px[tgt] for q in win])], 20000); nq += 1
            if r != "unsat": bad.append("pixel %d points to %d which is not the largest of its 3x3 window (%s)" % (p, tgt, r))
        if res["ret"] != nmax: bad.append("neighbormax returned %r, %d maxima" % (res["ret"], nmax))
        if res["events"]: bad.append("memory events %s" % res["events"][:3])
        m = EX.model([]) if bad else None
        return dict(bad=bad, nq=nq, vals=[float(m.eval(x, model_completion=True).as_fraction()) for x in px] if m else None)
    return f

def make_lml_run(mod, ns, nf):
    def run():
        it = Interp(mod); im = symobj(it, "im", ns * nf, "float", "const"); px = [im.get(k) for k in range(ns * nf)]
        CTX.hyp += distinct_hyp(px, ns, nf)
        lab = symobj(it, "labelsjunk", ns * nf, "i32", "inout"); wrk = symobj(it, "wrkjunk", ns * nf, "i8", "inout", lo=0, hi=255)   # arbitrary previous content
        ret = it.call("localmaxlabel", [Ptr(im, 0), Ptr(lab, 0), Ptr(wrk, 0), ns, nf])
        return dict(px=px, labels=snapshot(lab, ns * nf, 4), ret=ret, events=list(it.events))
    return run
def on_lml_path(ns, nf):
    def f(res, pc, hyp, taken, status):
        if res is None: return dict(bad=["path ended: " + status])
        m = EX.model([]); vals = [m.eval(x, model_completion=True).as_fraction() for x in res["px"]]
        want, npk = oracle_dense(vals, ns, nf); bad = []
        got = [x if isinstance(x, int) else str(x) for x in res["labels"]]
        if got != want: bad.append("labels %s, steepest ascent gives %s" % (got, want))
        if res["ret"] != npk: bad.append("returned %r, %d local maxima" % (res["ret"], npk))
        if res["events"]: bad.append("memory events %s" % res["events"][:3])
        return dict(bad=bad, vals=[float(v) for v in vals], key=str(want))
    return f

def replay_dense(vals, ns, nf, threads=(1,)):
    import ctypes as C
    L = creplay.lib(); img = np.array(vals, np.float32).reshape(ns, nf)
    want, npk = oracle_dense(img.ravel().tolist(), ns, nf); bad = []
    L.localmaxlabel.restype = C.c_int
    for nt in threads:
        try: L.cimaged11_omp_set_num_threads(C.c_int(nt))
        except AttributeError: pass
        lab = np.full((ns, nf), -77, np.int32); wrk = np.full((ns, nf), 3, np.uint8)
        r = L.localmaxlabel(creplay.fptr(img), creplay.iptr(lab), wrk.ctypes.data_as(C.POINTER(C.c_uint8)), ns, nf)
        if lab.ravel().tolist() != want or r != npk: bad.append("%d thread(s): labels %s (returned %d), steepest ascent %s (%d maxima)" % (nt, lab.ravel().tolist(), r, want, npk)); break
    return bad

# ------------------------------------------------------------------------------------------------ sparse
def make_sparse_run(mod, nnz, W):
    def run():
        it = Interp(mod)
        v = symobj(it, "v", nnz, "float", "const"); io = symobj(it, "i", nnz, "i16", "const", lo=0, hi=W - 1); jo = symobj(it, "j", nnz, "i16", "const", lo=0, hi=W - 1)
        I = [io.get(k) for k in range(nnz)]; J = [jo.get(k) for k in range(nnz)]; V = [v.get(k) for k in range(nnz)]
        for k in range(1, nnz): CTX.hyp.append(z3.Or(I[k] > I[k - 1], z3.And(I[k] == I[k - 1], J[k] > J[k - 1])))
        CTX.hyp += [V[a] != V[b] for a in range(nnz) for b in range(a + 1, nnz)] + [x > -10 ** 10 for x in V]
        MV = outobj(it, "MV", nnz, "float", "inout"); iMV = outobj(it, "iMV", nnz, "i32", "inout"); lab = outobj(it, "labels", nnz, "i32", "inout")
        ret = it.call("sparse_localmaxlabel", [Ptr(v, 0), Ptr(io, 0), Ptr(jo, 0), nnz, Ptr(MV, 0), Ptr(iMV, 0), Ptr(lab, 0)])
        return dict(I=I, J=J, V=V, labels=snapshot(lab, nnz, 4), ret=ret, events=list(it.events))
    return run
def on_sparse_path(nnz, W):
    def f(res, pc, hyp, taken, status):
        if res is None: return dict(bad=["path ended: " + status], nq=0)
        I, J, V = res["I"], res["J"], res["V"]; labels = res["labels"]; base = list(hyp) + list(pc); bad = []; nq = 0
        def zabs(x): return z3.If(x >= 0, x, -x)
        adj = [[z3.And(zabs(I[p] - I[q]) <= 1, zabs(J[p] - J[q]) <= 1) for q in range(nnz)] for p in range(nnz)]
        # parent(p) = the largest pixel of p's 3x3 neighbourhood (itself included) as an index term
        def parent(p):
            t = z3.IntVal(p)
            for q in range(nnz):
                t = z3.If(z3.And(adj[p][q], *[z3.Or(z3.Not(adj[p][r]), V[q] >= V[r]) for r in range(nnz)]), z3.IntVal(q), t)
            return t
        par = [parent(p) for p in range(nnz)]
        def step(t):
            r = t
            for q in range(nnz): r = z3.If(t == q, par[q], r)
            return r
        root = list(par)
        for _ in range(max(0, nnz - 1)): root = [step(t) for t in root]
        if not all(isinstance(x, int) for x in labels): bad.append("labels %s" % labels)
        else:
            goals = [("all labelled", z3.BoolVal(all(x >= 1 for x in labels)))]
            for p in range(nnz):
                for q in range(p + 1, nnz): goals.append(("same%d_%d" % (p, q), (root[p] == root[q]) == z3.BoolVal(labels[p] == labels[q])))
            nmax = sum([z3.If(par[p] == p, 1, 0) for p in range(nnz)]) if nnz else z3.IntVal(0)
            goals.append(("count", nmax == res["ret"]))
            used = sorted(set(labels))
            if used != list(range(1, len(used) + 1)) or len(used) != res["ret"]: bad.append("labels used %s returned %r" % (used, res["ret"]))
            for nm, g in goals:
                r, m = common.solve(base + [z3.Not(g)], 20000, want_model=True); nq += 1
                if r != "unsat": bad.append("oracle mismatch %s (%s)" % (nm, r)); break
        if res["events"]: bad.append("memory events %s" % res["events"][:3])
        out = dict(bad=bad, nq=nq)
        if bad:
            m = EX.model([])
            if m is not None:
                out.update(i=[m.eval(x, model_completion=True).as_long() for x in I], j=[m.eval(x, model_completion=True).as_long() for x in J],
                           v=[float(m.eval(x, model_completion=True).as_fraction()) for x in V])
        return out
    return f
def oracle_sparse(i, j, v):
    n = len(i)
    def up(p):
        b = p
        for q in range(n):
            if abs(i[p] - i[q]) <= 1 and abs(j[p] - j[q]) <= 1 and v[q] > v[b]: b = q
        return b
    roots = []
    for p in range(n):
        q = p
        while up(q) != q: q = up(q)
        roots.append(q)
    return roots
def replay_sparse(i, j, v):
    import ctypes as C
    L = creplay.lib(); n = len(i); ii = np.array(i, np.uint16); jj = np.array(j, np.uint16); vv = np.array(v, np.float32)
    MV = np.zeros(n, np.float32); iMV = np.zeros(n, np.int32); lab = np.zeros(n, np.int32); L.sparse_localmaxlabel.restype = C.c_int
    p16 = lambda a: a.ctypes.data_as(C.POINTER(C.c_uint16))
    r = L.sparse_localmaxlabel(creplay.fptr(vv), p16(ii), p16(jj), n, creplay.fptr(MV), creplay.iptr(iMV), creplay.iptr(lab))
    roots = oracle_sparse(list(i), list(j), vv.tolist()); bad = []
    for p in range(n):
        for q in range(p + 1, n):
            if (roots[p] == roots[q]) != (lab[p] == lab[q]): bad.append("pixels %d,%d: labels %d,%d but ascent ends at %d,%d" % (p, q, lab[p], lab[q], roots[p], roots[q]))
    if r != len(set(roots)): bad.append("returned %d, %d local maxima" % (r, len(set(roots))))
    return bad

# ------------------------------------------------------------------------------------------------ interleavings of the hand-rolled region
def thread_schedules(modo, ns, nf, img, maxsw, max_threads, team=2):
    """explore all schedules (<= maxsw context switches) of `team` threads in the final parallel region of localmaxlabel, run
    through the REAL function on a concrete image with symbolic previous content of labels/wrk.  returns list of violations."""
    from greenlet import greenlet
    want, npk = oracle_dense(img, ns, nf)
    def run():
        it = Interp(modo); it.omp_mode = "threads"; it.fork_target = 3; it.num_threads = team; it.max_threads = max_threads
        im = mkobj(it, "im", [Fraction(x) for x in img], "float", "const")
        lab = symobj(it, "stale", ns * nf, "i32", "inout"); wrk = symobj(it, "wrkjunk", ns * nf, "i8", "inout", lo=0, hi=255)
        for k in range(ns * nf): CTX.hyp.append(z3.And(lab.get(k) > 1000 + k, lab.get(k) < 2000))       # stale labels are recognisably not results
        trace = []
        def handler(it_, fn, cap, cell):
            lab.kind = "shared"; wrk.kind = "shared"
            main = greenlet.getcurrent()
            it_.yield_hook = lambda ob, off, w, ins: main.switch(("acc", ob.name.split("#")[0], off, w, it_.mod.srcline(ins.line) if ins is not None else None))
            def mk(tid):
                def body():
                    it_.call(fn, [cell(tid), cell(tid)] + list(cap)); return ("done",)
                return greenlet(body, parent=main)
            th = [mk(t) for t in range(team)]; alive = [True] * team; cur = 0; sw = 0
            main_stack = it_.stack; stacks = [[] for _ in range(team)]
            try:
                while any(alive):
                    opts = [cur] if alive[cur] else []
                    for t in range(team):
                        if t != cur and alive[t] and (sw < maxsw or not alive[cur]): opts.append(t)
                    t = EX.pick(opts)
                    if t != cur and alive[cur]: sw += 1
                    it_.stack = stacks[t]          # each thread has its own call stack inside the interpreter
                    cur = t; it_.cur_tid = t
                    r = th[t].switch()
                    if r is None or r[0] == "done" or th[t].dead: alive[t] = False
                    else: trace.append((t,) + r[1:])
            finally:
                it_.yield_hook = None; lab.kind = "inout"; wrk.kind = "inout"
                for t in range(team):
                    if not th[t].dead:
                        it_.stack = stacks[t]
                        try: th[t].throw(greenlet.GreenletExit)
                        except BaseException: pass
                it_.stack = main_stack
        it.thread_handler = handler
        ret = it.call("localmaxlabel", [Ptr(im, 0), Ptr(lab, 0), Ptr(wrk, 0), ns, nf])
        return dict(labels=snapshot(lab, ns * nf, 4), ret=ret, events=list(it.events), trace=trace[-16:])
    viol = []; n = 0
    for res, pc, hyp, taken, status in symcore.explore(run, maxpaths=400000):
        n += 1
        if res is None: viol.append(dict(what="path ended " + status, taken=str(taken))); continue
        got = res["labels"]
        if any(isinstance(x, z3.ExprRef) for x in got) or got != want or res["events"]:
            viol.append(dict(what="labels %s, sequential result %s%s" % ([x if isinstance(x, int) else "STALE" for x in got], want, (" events %s" % res["events"][:2]) if res["events"] else ""),
                             schedule=[d for d in taken], trace=[str(t) for t in res["trace"]]))
    return n, viol

_TJOBS = {}
def _tjob(i):
    modo, ns, nf, img, maxsw, mx, team = _TJOBS[i]
    common.STATS.__init__()
    n, viol = thread_schedules(modo, ns, nf, img, maxsw, mx, team)
    return n, viol[:3], len(viol), common.STATS.asdict()

THREAD_SCRIPT = r'''
import sys, json, ctypes as C, numpy as np
so, ns, nf, seed = sys.argv[1], int(sys.argv[2]), int(sys.argv[3]), int(sys.argv[4])
L = C.CDLL(so); L.localmaxlabel.restype = C.c_int
def oracle(img, ns, nf):
    interior = lambda p: 0 < p // nf < ns - 1 and 0 < p % nf < nf - 1
    def up(p):
        best = p
        for di in (-1, 0, 1):
            for dj in (-1, 0, 1):
                q = p + di * nf + dj
                if img[q] > img[best]: best = q
        return best
    mx = [p for p in range(ns * nf) if interior(p) and up(p) == p]; lab = {p: n + 1 for n, p in enumerate(mx)}; out = [0] * (ns * nf)
    for p in range(ns * nf):
        if not interior(p): continue
        q = p
        while interior(q) and up(q) != q: q = up(q)
        out[p] = lab[q] if interior(q) else 0
    return out
rng = np.random.RandomState(seed); bad = None
jj, ii = np.meshgrid(np.arange(nf), np.arange(ns))
ramp = (jj * 1.0 + ii * 0.001 + 0.0001 * rng.rand(ns, nf)).astype(np.float32)          # long ascent paths across thread blocks
imgs = [ramp, rng.permutation(ns * nf).reshape(ns, nf).astype(np.float32)]
for img in imgs:
    want = oracle(img.ravel().tolist(), ns, nf)
    for nt in (1, 2, 3, 4, 7, 16):
        L.cimaged11_omp_set_num_threads(C.c_int(nt))
        for rep in range(int(sys.argv[5])):
            lab = np.full((ns, nf), 12345 + rep, np.int32); wrk = np.full((ns, nf), 3, np.uint8)
            L.localmaxlabel(img.ctypes.data_as(C.POINTER(C.c_float)), lab.ctypes.data_as(C.POINTER(C.c_int)), wrk.ctypes.data_as(C.POINTER(C.c_uint8)), ns, nf)
            if lab.ravel().tolist() != want:
                d = [p for p in range(ns * nf) if lab.ravel()[p] != want[p]]
                bad = "requested %d threads, run %d: %d pixels differ from steepest ascent (e.g. pixel %d label %d expected %d) on a %dx%d image" % (nt, rep, len(d), d[0], lab.ravel()[d[0]], want[d[0]], ns, nf); break
        if bad: break
    if bad: break
print(json.dumps(dict(bad=bad)))
'''
def thread_replay(reps=150):
    """stress the REAL OpenMP build (several environments: default, a thread limit below the request, dynamic teams)"""
    lib = creplay.lib(); so = lib._name
    for env in ({}, {"OMP_THREAD_LIMIT": "2"}, {"OMP_DYNAMIC": "true"}, {"OMP_THREAD_LIMIT": "3"}):
        e = dict(os.environ); e.update(env); e.pop("OMP_NUM_THREADS", None)
        for (ns, nf) in ((3, 5), (6, 40), (32, 32)):
            r = subprocess.run([sys.executable, "-c", THREAD_SCRIPT, so, str(ns), str(nf), str(common.SEED), str(reps)], capture_output=True, text=True, env=e, timeout=600)
            try: d = json.loads(r.stdout.strip().split("\n")[-1])
            except Exception: continue
            if d["bad"]: return "%s [environment %s]" % (d["bad"], env or "default")
    return None

# ------------------------------------------------------------------------------------------------ main
def main():
    args = parse_args("C13"); ck = Check("C13", args.tier); thorough = args.tier == "thorough"
    symcore.Explorer.incremental = True
    ir = common.build_ir(["localmaxlabel", "sparse_image", "blobs"]); mod = Module()
    for k in ("localmaxlabel", "sparse_image", "blobs"): mod.load(ir[k])
    iro = common.build_ir(["localmaxlabel"], openmp=True); modo = Module(); modo.load(iro["localmaxlabel"])
    ck.encoded("src/localmaxlabel.c:neighbormax", "src/localmaxlabel.c:localmaxlabel (sequential IR and the three OpenMP constructs of the -fopenmp IR)", "src/sparse_image.c:sparse_localmaxlabel")
    shapes = [(3, 3), (3, 4), (4, 3)] + ([(3, 5)] if thorough else [])      # (4, 4) symbolic ran beyond an hour
    ck.bound("sequential: symbolic images of shapes %s, pixels within distance 2 pairwise distinct, arbitrary previous content of labels and wrk" % shapes,
             "sparse: symbolic sorted coordinates in a 3x3 grid, nnz <= %d, distinct values; steepest-ascent relation quantified by the solver" % (4 if thorough else 3),
             "row loops: alias queries on two abstract iterations, no bound on image size or threads",
             "hand-rolled region: 2 abstract threads (team of 2; omp_get_max_threads in {2,3}), <= %d context switches, sequentially consistent memory, images 3x5 / 3x6 / 4x4 with symbolic stale buffers" % (3 if thorough else 2),
             "larger images, more threads, weak memory effects are outside the bound")
    ck.assume("'without equal-valued neighbours' is read as: all pixels of every 3x3 window pairwise distinct (so that 'the largest neighbour' is unique)",
              "float pixels as reals (only compared)", "sparse values > -1e10 (the kernel's MV_LOW sentinel)",
              "OpenMP contract: a team may be smaller than omp_get_max_threads(); static/dynamic schedules give each iteration to one thread")
    # ---- sequential
    for (ns, nf) in shapes:
        name = "neighbormax[%dx%d]" % (ns, nf)
        outs = harness.par_paths(ck, make_nbmax_run(mod, ns, nf), on_nbmax_path(ns, nf), depth=6)
        ck.path(None, n=len(outs)); common.STATS.queries += sum(o.get("nq", 0) for o in outs)
        for n_ in range(len(outs)): ck.path("%s:%d" % (name, n_), n=0)
        badp = [o for o in outs if o["bad"]]
        if not badp: ck.ok("%s: every interior pixel points to the largest pixel of its 3x3 window on all %d ordering patterns" % (name, len(outs)))
        for o in badp[:2]:
            rb = replay_dense(o["vals"], ns, nf) if o.get("vals") else None
            if rb: ck.violation("%s: %s" % (name, rb[0]), "localmaxlabel:sequential", dict(vals=o["vals"], ns=ns, nf=nf))
            else: ck.not_reproduced("%s: model says %s" % (name, o["bad"][:2]))
        name = "localmaxlabel-seq[%dx%d]" % (ns, nf)
        outs = harness.par_paths(ck, make_lml_run(mod, ns, nf), on_lml_path(ns, nf), depth=6)
        ck.path(None, n=len(outs))
        for o in outs: ck.path("%s:%s" % (name, o.get("key")), n=0)
        badp = [o for o in outs if o["bad"]]
        if not badp: ck.ok("%s: labels = steepest-ascent labels, count = #maxima, borders 0, independent of previous buffer content, on all %d paths" % (name, len(outs)))
        for o in badp[:2]:
            rb = replay_dense(o["vals"], ns, nf) if o.get("vals") else None
            if rb: ck.violation("%s: %s" % (name, rb[0]), "localmaxlabel:sequential", dict(vals=o["vals"], ns=ns, nf=nf))
            else: ck.not_reproduced("%s: model says %s" % (name, o["bad"][:2]))
        ck.sample(dict(harness=name, paths=len(outs)))
    # ---- sparse
    for nnz in range(1, (4 if thorough else 3) + 1):
        name = "sparse_localmaxlabel[nnz=%d]" % nnz
        outs = harness.par_paths(ck, make_sparse_run(mod, nnz, 3), on_sparse_path(nnz, 3), depth=5)
        ck.path(None, n=len(outs)); common.STATS.queries += sum(o.get("nq", 0) for o in outs)
        for n_ in range(len(outs)): ck.path("%s:%d" % (name, n_), n=0)
        badp = [o for o in outs if o["bad"]]
        if not badp: ck.ok("%s: same label <=> same steepest-ascent maximum on all %d paths (symbolic coordinates)" % (name, len(outs)))
        for o in badp[:2]:
            rb = replay_sparse(o["i"], o["j"], o["v"]) if "i" in o else None
            if rb: ck.violation("%s i=%s j=%s v=%s: %s" % (name, o["i"], o["j"], o["v"], rb[0]), "sparse_localmaxlabel", o)
            else: ck.not_reproduced("%s: model says %s" % (name, o["bad"][:2]))
    # ---- row loops: footprints
    for target, what in ((1, "neighbormax row loop"), (2, "relabel row loop (dynamic schedule)")):
        def setup(it, target=target):
            it.fork_target = target; ns, nf = 4, 4
            kA, kB = z3.Int("kA"), z3.Int("kB"); it.omp_iters = (kA, kB); CTX.hyp += [kA >= 0, kB >= 0, kA < ns, kB < ns]
            im = mkobj(it, "im", [Fraction((7 * k * k + 3 * k) % 17) + Fraction(k, 100) for k in range(ns * nf)], "float", "const")
            return [Ptr(im, 0), Ptr(outobj(it, "lout", ns * nf, "i32", "inout"), 0), Ptr(outobj(it, "l", ns * nf, "i8", "inout"), 0), ns, nf]
        npaths, nq, conflicts, shared = llsym.footprint(modo, "localmaxlabel", setup)
        ck.path("footprint-%d" % target, n=npaths)
        if npaths == 0: ck.vacuity_fail("footprint %s not reached" % what); continue
        ck.vacuity_ok("footprint %s: %d path pairs" % (what, npaths))
        if not conflicts: ck.ok("%s: two different iterations never touch the same cell with a write (%d alias queries)" % (what, nq))
        else:
            bad = thread_replay(60)
            if bad: ck.violation("%s has a loop-carried conflict %s and the real build disagrees with steepest ascent: %s" % (what, conflicts[:2], bad), "localmaxlabel:row-loop-race", dict(conflicts=[str(c) for c in conflicts[:5]]))
            else: ck.not_reproduced("%s: conflicts %s" % (what, conflicts[:2]))
    # ---- hand-rolled region: interleavings
    maxsw = 3 if thorough else 2
    ramp = lambda ns, nf: [j * 10 + (5 if i == 1 else i) for i in range(ns) for j in range(nf)]   # row 1 is a ridge rising to the right border: one long ascent chain across the thread blocks
    hill = lambda ns, nf: [100 - (2 * i - ns) ** 2 - (j - nf // 2) ** 2 * 3 + (i * nf + j) * 0.01 for i in range(ns) for j in range(nf)]
    cases = [((3, 5), ramp(3, 5), 2), ((4, 4), ramp(4, 4), 3), ((3, 6), [-x for x in ramp(3, 6)], 2), ((4, 4), hill(4, 4), 2)]
    if thorough: cases += [((3, 7), ramp(3, 7), 2), ((4, 5), hill(4, 5), 3)]
    _TJOBS.clear()
    for n_, ((ns, nf), img, mx) in enumerate(cases): _TJOBS[n_] = (modo, ns, nf, img, maxsw, mx, 2)
    res = common.pmap(_tjob, list(range(len(cases))))
    race = []
    for n_, (nsched, v3, nv, st) in enumerate(res):
        (ns, nf), img, mx = cases[n_]; ck.merge_stats(st); ck.path(None, n=nsched)
        name = "schedules[%dx%d, team 2, max_threads %d, <=%d switches]" % (ns, nf, mx, maxsw)
        for k in range(min(nsched, 50)): ck.path("%s:%d" % (name, k), n=0)
        ck.extra.setdefault("schedules", {})[name] = dict(explored=nsched, violating=nv)
        if nv == 0: ck.ok("%s: final labels equal the sequential result on all %d schedules and all stale buffer contents" % (name, nsched))
        else: race.append((name, nv, nsched, v3))
    if race:
        bad = thread_replay(150)
        name, nv, nsched, v3 = race[0]
        desc = "%s: %d of %d schedules end with a wrong/stale label, e.g. %s" % (name, nv, nsched, v3[0]["what"])
        if bad: ck.violation("result depends on the thread schedule: %s; real build: %s" % (desc, bad), "localmaxlabel.c:parallel-walk:stale-label-race", dict(model=v3[0]))
        else: ck.not_reproduced(desc + " (stress runs of the real build did not show it)")
    ck.finish("Symbolic execution of the real kernels: neighbormax points every interior pixel to the largest of its window on every ordering "
              "pattern; the sequential labelling equals steepest ascent from arbitrary buffer contents; the sparse kernel is checked against a "
              "solver-quantified ascent relation with symbolic coordinates; the OpenMP row loops are race free by alias queries; the hand-rolled "
              "parallel walk is explored over all schedules of two threads within a context-switch bound from the real outlined IR.")

if __name__ == "__main__":
    common.run_main(main)
