"""
C04 - UBI, UB, U, B, metric tensor and cell parameters are mutually consistent.
Decided by: pysym execution of the real constructors / properties / numba-gufunc bodies on symbolic cells and symbolic UBIs;
equalities between the copies of each formula and the lattice identities are z3 validity queries over the reals (unbounded
in all values), staged where the monolithic query is out of reach.
"""
import sys, os, itertools
sys.path.insert(0, os.path.join(os.path.dirname(os.path.abspath(__file__)), "..", "lib"))
import z3, numpy as np
from fractions import Fraction
import common, symcore, pysym, harness
from common import Check, parse_args
from pysym import Sym, T, var, symbolize
from symcore import CTX

def pyf(f):
    g = getattr(f, "py_func", None)
    if g is None and hasattr(f, "gufunc_builder"): g = f.gufunc_builder.py_func
    return g or f

def sym_cell():
    """symbolic cell a,b,c (lengths) and angles in degrees with the validity conditions of a cell"""
    a, b, c, al, be, ga = [var(n) for n in ("a", "b", "c", "alpha", "beta", "gamma")]
    CTX.hyp += [a.t > 0, b.t > 0, c.t > 0]
    cs = {}
    for nm, ang in (("alpha", al), ("beta", be), ("gamma", ga)):
        co, si = symcore.trig(np.radians(ang).t); cs[nm] = (co, si); CTX.hyp.append(si > 0)          # 0 < angle < 180
    ca, cb, cg = cs["alpha"][0], cs["beta"][0], cs["gamma"][0]
    CTX.hyp.append(1 + 2 * ca * cb * cg - ca * ca - cb * cb - cg * cg > 0)                              # positive volume
    return [a, b, c, al, be, ga], cs

def sym_ubi(prefix="u"):
    u = np.array([[var("%s%d%d" % (prefix, i, j)) for j in range(3)] for i in range(3)], dtype=object)
    CTX.hyp.append(T(pysym.det3(u)) > 0)          # right handed
    return u

def main():
    args = parse_args("C04"); ck = Check("C04", args.tier); thorough = args.tier == "thorough"
    import ImageD11.unitcell as UC, ImageD11.grain as GR, ImageD11.indexing as IX, ImageD11.sinograms.tensor_map as TM, ImageD11.sinograms.point_by_point as PB
    inv3 = lambda m: pysym.inv3(np.asarray(m, dtype=object))
    ck.encoded("ImageD11/unitcell.py:unitcell.__init__ (metric, reciprocal metric, B)", "ImageD11/grain.py:grain.UB/B/U/mt/rmt/unitcell", "ImageD11/indexing.py:ubitocellpars", "ImageD11/indexing.py:ubitoB (np.linalg.cholesky / inv as contract stubs)",
               "ImageD11/sinograms/tensor_map.py:ubi_to_mt/mt_to_unitcell/unitcell_to_b/ubi_and_b_to_u/fast_invert (gufunc py_func bodies)", "ImageD11/sinograms/point_by_point.py:ubi_to_unitcell/ubi_and_ucell_to_u (py_func)")
    ck.bound("unbounded: every cell (a,b,c>0, angles in (0,180), positive volume) and every right-handed real UBI; one voxel per query (gufunc kernels are per-voxel; broadcasting is numba's)")
    ck.assume("real-arithmetic model; cos/sin of the three cell angles are constrained pairs; cos(acos q)=q, sin(acos q)=sqrt(1-q^2) for |q|<=1 (arguments of acos are cosines of lattice angles)",
              "np.linalg.inv -> adjugate/determinant with det != 0 recorded as precondition; pi = exact rational of the double",
              "indexing.ubitoB: np.linalg.cholesky(m) is the contract stub 'L lower triangular, positive diagonal, L.L^T = m' and np.linalg.inv(m) the contract stub 'X.m = m.X = I'; that the upper triangular factor with positive diagonal of the reciprocal metric is unique (so equals unitcell.B) is the textbook theorem (trusted)",
              "xfab's Rodrigues vector is outside the claim; NaN inputs are checked concretely (all-NaN out)")
    tmo = 60000 if thorough else 20000

    # ---------------------------------------------------------------- (a) the copies of the B construction agree; (b) B^T B = reciprocal metric
    def run_B():
        cell, cs = sym_cell()
        with symbolize(UC, extra=[(UC, "inv", inv3)]):
            uc = UC.unitcell(cell, "P")
        B0 = uc.B; gi = uc.gi; g = uc.g
        goals = []
        with symbolize(TM):
            res = np.empty((3, 3), dtype=object); pyf(TM.unitcell_to_b)(np.array(cell, dtype=object), None, res)
        for i in range(3):
            for j in range(3): goals.append(("tensor_map.unitcell_to_b[%d%d] = unitcell.B" % (i, j), T(res[i, j]) == T(B0[i, j])))
        u = sym_ubi()
        with symbolize(PB):
            U_pb = pyf(PB.ubi_and_ucell_to_u)(u, np.array(cell, dtype=object))
        U_ref = np.dot(B0, u).T
        for i in range(3):
            for j in range(3): goals.append(("point_by_point.ubi_and_ucell_to_u[%d%d] = (unitcell.B . ubi)^T" % (i, j), T(U_pb[i, j]) == T(U_ref[i, j])))
        with symbolize(TM):
            res2 = np.empty((3, 3), dtype=object); pyf(TM.ubi_and_b_to_u)(u, B0, res2)
        for i in range(3):
            for j in range(3): goals.append(("tensor_map.ubi_and_b_to_u[%d%d] = (B . ubi)^T" % (i, j), T(res2[i, j]) == T(U_ref[i, j])))
        goals += [("B lower triangle zero", z3.And(T(B0[1, 0]) == 0, T(B0[2, 0]) == 0, T(B0[2, 1]) == 0)), ("B diagonal positive", z3.And(T(B0[0, 0]) > 0, T(B0[1, 1]) > 0, T(B0[2, 2]) > 0))]
        gg = np.dot(g, gi)
        for i in range(3):
            for j in range(3): goals.append(("g . gi = I [%d%d]" % (i, j), T(gg[i, j]) == (1 if i == j else 0)))
        inputs = {k: T(v) for k, v in zip(("a", "b", "c"), cell[:3])}
        return dict(goals=goals, inputs=inputs, angle_pairs={k: v for k, v in cs.items()}, BtB=(B0, gi))
    def replay_B(vals, label):
        cell = [vals["a"], vals["b"], vals["c"], vals["alpha"], vals["beta"], vals["gamma"]]
        if any(v is None for v in cell) or not (0 < min(cell[3:]) and max(cell[3:]) < 180): return False, "model incomplete"
        try: return concrete_compare(cell)
        except Exception as e: return False, "replay raised %s" % e
    jobs = [("B-copies", run_B, dict(replay=replay_B, timeout_ms=tmo, keyfn=lambda n, l: "B-construction:" + l.split("[")[0]))]

    def run_BtB():
        cell, cs = sym_cell()
        with symbolize(UC, extra=[(UC, "inv", inv3)]):
            uc = UC.unitcell(cell, "P")
        B0 = uc.B; gi = uc.gi; BtB = np.dot(B0.T, B0)
        goals = [("B^T B = gi [%d%d]" % (i, j), T(BtB[i, j]) == T(gi[i, j])) for i in range(3) for j in range(i, 3)]
        return dict(goals=goals, inputs={k: T(v) for k, v in zip(("a", "b", "c"), cell[:3])}, angle_pairs=dict(cs))
    # entry (1,2) mixes direct and reciprocal angles (spherical-triangle identity): stretch obligation
    for idx, (i, j) in enumerate([(0, 0), (0, 1), (0, 2), (1, 1), (1, 2), (2, 2)]):
        def one(i=i, j=j):
            r = run_BtB(); r["goals"] = [g for g in r["goals"] if g[0].endswith("[%d%d]" % (i, j))]; return r
        jobs.append(("BtB[%d%d]" % (i, j), one, dict(replay=replay_B, timeout_ms=tmo if (i, j) != (1, 2) else (120000 if thorough else 10000), stretch=((i, j) == (1, 2)), keyfn=lambda n, l: "B-construction:BtB")))

    # ---------------------------------------------------------------- (c,d,f) UBI -> metric -> cell copies; UB = inverse
    def run_ubi():
        u = sym_ubi(); goals = []
        with symbolize(GR):
            g = GR.grain(u)                # through the real constructor (set_ubi / clear_cache)
            mt = g.mt; cellG = g.unitcell; UB = g.UB
        mt_ref = np.dot(u, u.T)
        for i in range(3):
            for j in range(3): goals.append(("grain.mt[%d%d] = ubi.ubi^T" % (i, j), T(mt[i, j]) == T(mt_ref[i, j])))
        with symbolize(TM):
            r1 = np.empty((3, 3), dtype=object); pyf(TM.ubi_to_mt)(u, r1)
            r2 = np.empty(6, dtype=object); pyf(TM.mt_to_unitcell)(r1, None, r2)
            r3 = np.empty((3, 3), dtype=object); pyf(TM.fast_invert)(u, r3)
        with symbolize(PB): cellP = pyf(PB.ubi_to_unitcell)(u)
        with symbolize(IX, extra=[]):
            import math as _m
            cellI = ubitocellpars_sym(IX, u)
        for k, nm in enumerate(("a", "b", "c", "alpha", "beta", "gamma")):
            goals.append(("tensor_map cell.%s = grain.unitcell" % nm, T(r2[k]) == T(cellG[k])))
            goals.append(("point_by_point cell.%s = grain.unitcell" % nm, T(cellP[k]) == T(cellG[k])))
            goals.append(("indexing.ubitocellpars.%s = grain.unitcell" % nm, T(cellI[k]) == T(cellG[k])))
        for i in range(3):
            for j in range(3):
                goals.append(("tensor_map.ubi_to_mt[%d%d]" % (i, j), T(r1[i, j]) == T(mt_ref[i, j])))
                goals.append(("tensor_map.fast_invert = grain.UB [%d%d]" % (i, j), T(r3[i, j]) == T(UB[i, j])))
        I1 = np.dot(u, UB)
        for i in range(3):
            for j in range(3): goals.append(("ubi . UB = I [%d%d]" % (i, j), T(I1[i, j]) == (1 if i == j else 0)))
        # the cell reproduces the metric: a^2 = mt00 ..., a b cos(gamma) = mt01 ...
        a, b, c = cellG[:3]
        cg = symcore.trig(np.radians(cellG[5]).t)[0]; cb = symcore.trig(np.radians(cellG[4]).t)[0]; ca = symcore.trig(np.radians(cellG[3]).t)[0]
        goals += [("a^2 = mt00", T(a * a) == T(mt_ref[0, 0])), ("b^2 = mt11", T(b * b) == T(mt_ref[1, 1])), ("c^2 = mt22", T(c * c) == T(mt_ref[2, 2])),
                  ("a b cos(gamma) = mt01", T(a) * T(b) * cg == T(mt_ref[0, 1])), ("a c cos(beta) = mt02", T(a) * T(c) * cb == T(mt_ref[0, 2])), ("b c cos(alpha) = mt12", T(b) * T(c) * ca == T(mt_ref[1, 2]))]
        return dict(goals=goals, inputs={"u%d%d" % (i, j): T(u[i, j]) for i in range(3) for j in range(3)})
    def replay_ubi(vals, label):
        u = np.array([[vals["u%d%d" % (i, j)] for j in range(3)] for i in range(3)], float)
        cands = [u] if np.linalg.det(u) > 1e-6 and np.abs(u).max() < 1e6 else []
        cands.append(np.array([[3.0, 0.3, 0.0], [-0.2, 4.0, 0.5], [0.1, 0.0, 5.0]]))      # the abstracted obligations do not pin the UBI: also try a generic triclinic one
        for uu in cands:
            hit, msg = concrete_ubi_compare(uu)
            if hit: return True, msg
        return False, msg
    def run_rmt():
        # staged: the metric tensor is abstracted to a fresh symmetric matrix M (grain.mt = ubi.ubi^T is proved above); grain.rmt must be its inverse
        u = sym_ubi(); M = np.empty((3, 3), dtype=object)
        for i in range(3):
            for j in range(i, 3): M[i, j] = M[j, i] = var("M%d%d" % (i, j))
        g = GR.grain.__new__(GR.grain); g.ubi = u; g.translation = None; GR.grain.clear_cache(g); g._mt = M
        with symbolize(GR): rmt = g.rmt
        RM = np.dot(rmt, M)
        return dict(goals=[("grain.rmt . mt = I [%d%d]" % (i, j), T(RM[i, j]) == (1 if i == j else 0)) for i in range(3) for j in range(3)], inputs={"u%d%d" % (i, j): T(u[i, j]) for i in range(3) for j in range(3)})
    # the grain object is a history: after set_ubi every cached quantity must be that of a freshly constructed grain
    def run_grain_history():
        ua = sym_ubi("ua"); ub = sym_ubi("ub")
        with symbolize(GR), symbolize(UC, extra=[(UC, "inv", inv3)]):
            g = GR.grain(ua); names = ("UB", "B", "U", "mt", "rmt", "unitcell")
            first = [getattr(g, n) for n in names]           # fill every cache
            g.set_ubi(ub); got = [getattr(g, n) for n in names]
            f = GR.grain(ub); want = [getattr(f, n) for n in names]
        goals = []
        for n, a, b in zip(names, got, want):
            a = np.asarray(a, dtype=object).ravel(); b = np.asarray(b, dtype=object).ravel()
            goals += [("after set_ubi: grain.%s = that of a fresh grain [%d]" % (n, k), T(a[k]) == T(b[k])) for k in range(len(a))]
        return dict(goals=goals, inputs={"u%d%d" % (i, j): T(ub[i, j]) for i in range(3) for j in range(3)})
    def replay_grain_history(vals, label):
        u1 = np.array([[3.0, 0.3, 0.0], [-0.2, 4.0, 0.5], [0.1, 0.0, 5.0]]); u2 = np.array([[4.1, 0.0, 0.2], [0.3, 3.7, 0.0], [-0.4, 0.1, 4.9]])
        g = GR.grain(u1); names = ("UB", "B", "U", "mt", "rmt", "unitcell"); _ = [getattr(g, n) for n in names]; g.set_ubi(u2); f = GR.grain(u2)
        for n in names:
            if not np.allclose(getattr(g, n), getattr(f, n), rtol=1e-12, atol=1e-12): return True, "grain.%s after set_ubi is %s, a fresh grain gives %s" % (n, np.round(getattr(g, n), 6).tolist(), np.round(getattr(f, n), 6).tolist())
        return False, "after set_ubi the real grain answers like a fresh one"
    jobs.append(("grain-set_ubi-history", run_grain_history, dict(replay=replay_grain_history, timeout_ms=tmo, budget_s=240, keyfn=lambda n, l: "grain.py:set_ubi:stale-cache:" + l.split("grain.")[1].split(" ")[0])))
    jobs.append(("rmt", run_rmt, dict(replay=replay_ubi, timeout_ms=tmo, keyfn=lambda n, l: "UBI-copies:rmt")))
    jobs.append(("UBI-metric-cell", run_ubi, dict(replay=replay_ubi, timeout_ms=tmo, keyfn=lambda n, l: "UBI-copies:" + l.split("[")[0].split(".")[0])))

    # ---------------------------------------------------------------- (e) U is orthogonal given B^T B = (ubi ubi^T)^-1 (staged: B abstracted to a fresh upper-triangular matrix)
    def run_U():
        u = sym_ubi()
        Bf = np.array([[var("B00"), var("B01"), var("B02")], [0.0, var("B11"), var("B12")], [0.0, 0.0, var("B22")]], dtype=object)
        CTX.hyp += [T(Bf[0, 0]) > 0, T(Bf[1, 1]) > 0, T(Bf[2, 2]) > 0]
        mt = np.dot(u, u.T); lem = np.dot(np.dot(Bf.T, Bf), mt)        # lemma (b)+(c): B^T B . mt = I
        for i in range(3):
            for j in range(3): CTX.hyp.append(T(lem[i, j]) == (1 if i == j else 0))
        with symbolize(GR):
            g = GR.grain(u); g._B = Bf     # real constructor; B replaced by the abstracted matrix of the lemma
            U = g.U; UB = g.UB
        UtU = np.dot(U.T, U); UBr = np.dot(U, Bf)
        goals = [("U^T U = I [%d%d]" % (i, j), T(UtU[i, j]) == (1 if i == j else 0)) for i in range(3) for j in range(i, 3)]
        goals += [("U . B = UB = inverse(ubi) [%d%d]" % (i, j), T(UBr[i, j]) == T(UB[i, j])) for i in range(3) for j in range(3)]
        goals.append(("det U = +1", T(pysym.det3(U)) == 1))
        return dict(goals=goals, inputs={})
    for part in range(4):
        def runU(part=part):
            r = run_U(); r["goals"] = r["goals"][part::4]; return r
        jobs.append(("U-orthogonal/%d" % part, runU, dict(replay=None, timeout_ms=120000 if thorough else 10000, stretch=True)))

    # ---------------------------------------------------------------- indexing.ubitoB: Cholesky as a contract stub; the result must be THE Busing-Levy B of the lattice
    def run_ubitoB():
        u = sym_ubi(); chol = []; invs = []
        class LA:
            def __getattr__(s, k): return getattr(np.linalg, k)
            def inv(s, m):
                # contract stub: X with X.m = m.X = I (the inverse is unique; det != 0 is the recorded precondition)
                m = np.asarray(m, dtype=object); k = len(invs); X = pysym.mat("inv%d_" % k)
                d = T(pysym.det3(m)); CTX.hyp.append(d != 0); CTX.pre.append(d != 0)
                for A in (np.dot(X, m), np.dot(m, X)):
                    for i in range(3):
                        for j in range(3): CTX.hyp.append(T(A[i, j]) == (1 if i == j else 0))
                invs.append((m, X)); return X
            def cholesky(s, m):
                # contract stub: L lower triangular, positive diagonal, L.L^T = m
                m = np.asarray(m, dtype=object); k = len(chol)
                L = np.array([[var("L%d_%d%d" % (k, i, j)) if j <= i else 0.0 for j in range(3)] for i in range(3)], dtype=object)
                LLt = np.dot(L, L.T)
                for i in range(3):
                    CTX.hyp.append(T(L[i, i]) > 0)
                    for j in range(i, 3): CTX.hyp.append(T(LLt[i, j]) == T(m[i, j]))
                chol.append((m, L)); return L
        class NP2(pysym.NPProxy): linalg = LA()
        with symbolize(IX, extra=[(IX, "np", NP2())]): Bx = np.asarray(IX.ubitoB(u), dtype=object)
        mt = np.dot(u, u.T); BtB = np.dot(Bx.T, Bx)
        goals = [("ubitoB lower triangle zero", z3.And(T(Bx[1, 0]) == 0, T(Bx[2, 0]) == 0, T(Bx[2, 1]) == 0)), ("ubitoB diagonal positive", z3.And(T(Bx[0, 0]) > 0, T(Bx[1, 1]) > 0, T(Bx[2, 2]) > 0))]
        if len(chol) == 1:
            # staged through the matrix C that the code hands to cholesky: B^T B = C and C . (ubi.ubi^T) = I  ==>  B^T B is the reciprocal metric
            C = chol[0][0]; CM = np.dot(C, mt)
            goals += [("ubitoB^T . ubitoB = the matrix factorised by cholesky [%d%d]" % (i, j), T(BtB[i, j]) == T(C[i, j])) for i in range(3) for j in range(i, 3)]
            goals += [("the factorised matrix is the reciprocal metric: C . (ubi.ubi^T) = I [%d%d]" % (i, j), T(CM[i, j]) == (1 if i == j else 0)) for i in range(3) for j in range(3)]
        else:
            P = np.dot(BtB, mt)
            goals += [("ubitoB^T . ubitoB . (ubi.ubi^T) = I [%d%d]" % (i, j), T(P[i, j]) == (1 if i == j else 0)) for i in range(3) for j in range(3)]
        return dict(goals=goals, inputs={"u%d%d" % (i, j): T(u[i, j]) for i in range(3) for j in range(3)})
    def replay_ubitoB(vals, label):
        u = np.array([[vals["u%d%d" % (i, j)] for j in range(3)] for i in range(3)], float)
        cands = [u] if np.linalg.det(u) > 1e-6 and np.abs(u).max() < 1e6 else []
        cands.append(np.array([[3.0, 0.3, 0.0], [-0.2, 4.0, 0.5], [0.1, 0.0, 5.0]]))
        for uu in cands:
            Bx = IX.ubitoB(uu); Bg = GR.grain(uu).B
            if not np.allclose(Bx, Bg, rtol=1e-7, atol=1e-9 * np.abs(Bg).max()):
                return True, "indexing.ubitoB(ubi) = %s but grain(ubi).B = %s (ubi = %s); ubitoB^T.ubitoB.mt = %s" % (np.round(Bx, 6).tolist(), np.round(Bg, 6).tolist(), np.round(uu, 6).tolist(), np.round(Bx.T @ Bx @ (uu @ uu.T), 6).tolist())
        return False, "ubitoB equals grain.B at the model point"
    for part in range(3):
        def runX(part=part):
            r = run_ubitoB(); r["goals"] = r["goals"][part::3]; return r
        jobs.append(("ubitoB/%d" % part, runX, dict(replay=replay_ubitoB, timeout_ms=tmo, keyfn=lambda n, l: "indexing.py:ubitoB:not-busing-levy")))
    harness.run_parallel(ck, jobs)

    # ---------------------------------------------------------------- TensorMap: cached derived maps follow the UBI map through any access history
    tensormap_histories(ck, TM, thorough)

    # ---------------------------------------------------------------- NaN masking of the vectorised kernels (concrete)
    nanbad = []
    nan33 = np.full((3, 3), np.nan); out33 = np.zeros((3, 3)); out6 = np.zeros(6)
    for nm, call, out in (("fast_invert", lambda o: pyf(TM.fast_invert)(nan33, o), out33), ("ubi_to_mt", lambda o: pyf(TM.ubi_to_mt)(nan33, o), out33),
                          ("mt_to_unitcell", lambda o: pyf(TM.mt_to_unitcell)(nan33, None, o), out6), ("unitcell_to_b", lambda o: pyf(TM.unitcell_to_b)(np.full(6, np.nan), None, o), out33),
                          ("ubi_and_b_to_u", lambda o: pyf(TM.ubi_and_b_to_u)(nan33, np.eye(3), o), out33)):
        o = out.copy(); call(o); ck.path("nan:" + nm)
        if not np.all(np.isnan(o)): nanbad.append(nm)
    if nanbad: ck.violation("NaN voxel does not stay NaN in %s" % nanbad, "tensor_map:nan-masking", dict(kernels=nanbad))
    else: ck.ok("NaN-masked voxel gives all-NaN output in the five per-voxel kernels")
    ck.finish("unitcell.__init__, the grain properties and the per-voxel bodies of the tensor_map / point_by_point kernels are executed on a symbolic cell and a symbolic "
              "right-handed UBI: the copies of the B construction, of the metric and of the cell extraction are equal entry by entry; g.gi = I, B upper triangular with "
              "positive diagonal, B^T B = gi (entry (1,2) as a stretch obligation), ubi.UB = I, the cell reproduces the metric; U orthogonal with det +1 from the lemma "
              "B^T B.mt = I (stretch). All queries are over the reals with no bound on the values.")

def voxelwise(pyfunc, nin, out_shape):
    """per-voxel wrapper with the broadcasting contract of a gufunc, for single-voxel (1,1,1,...) symbolic maps"""
    def f(*arrs):
        ins = [np.asarray(a, dtype=object)[0, 0, 0] if (isinstance(a, np.ndarray) and a.ndim >= 4) or (isinstance(a, np.ndarray) and a.dtype == object and a.ndim >= 3 + 1) else a for a in arrs]
        res = np.empty(out_shape, dtype=object); pyfunc(*(ins + [res]))
        out = np.empty((1, 1, 1) + out_shape, dtype=object); out[0, 0, 0] = res; return out
    return f

def tensormap_histories(ck, TM, thorough):
    import itertools as it
    from symcore import EX
    names = {"fast_invert": (1, (3, 3)), "ubi_to_mt": (1, (3, 3)), "mt_to_unitcell": (2, (6,)), "unitcell_to_b": (2, (3, 3)), "ubi_and_b_to_u": (2, (3, 3))}
    triples = [(TM, n, voxelwise(pyf(getattr(TM, n)), k, shp)) for n, (k, shp) in names.items()]
    ops = ["get U", "get B", "get UB", "get mt", "get unitcell", "set UBI", "tm['UBI']="]
    depth = 4 if thorough else 3
    def fresh_ubi(tag):
        u = np.empty((1, 1, 1, 3, 3), dtype=object)
        for i in range(3):
            for j in range(3): u[0, 0, 0, i, j] = var("%s%d%d" % (tag, i, j))
        return u
    def run():
        with symbolize(TM, extra=triples):
            u0 = fresh_ubi("p"); CTX.hyp.append(T(pysym.det3(u0[0, 0, 0])) > 0)
            tm = TM.TensorMap(maps={"UBI": u0}); cur = u0; done = []; nset = 0; bad = []
            for step in range(depth):
                k = EX.pick(list(range(len(ops)))); op = ops[k]; done.append(op)
                if op.startswith("get"): getattr(tm, op.split()[1])
                else:
                    nset += 1; cur = fresh_ubi("q%d" % nset); CTX.hyp.append(T(pysym.det3(cur[0, 0, 0])) > 0)
                    if op == "set UBI": tm.UBI = cur
                    else: tm["UBI"] = cur
                # every derived map the object now holds must be the one a fresh object computes from the current UBI
                ref = TM.TensorMap(maps={"UBI": cur})
                for nm in ("UB", "mt", "unitcell", "B", "U"):
                    if nm in tm.maps:
                        a = tm.maps[nm][0, 0, 0]; b = getattr(ref, nm)[0, 0, 0]
                        if any(not z3.simplify(T(x) - T(y)).eq(z3.RealVal(0)) for x, y in zip(np.ravel(a), np.ravel(b))):
                            r, m = common.solve(list(CTX.hyp) + [z3.Or([T(x) != T(y) for x, y in zip(np.ravel(a), np.ravel(b))])], 10000)
                            if r != "unsat": bad.append("after %s the cached %s map is not the one computed from the current UBI" % (done, nm))
                if bad: break
        return dict(bad=bad, seq=done)
    def on_path(res, pc, hyp, taken, status):
        if res is None: return dict(bad=["path ended: " + status], seq=None)
        return dict(bad=res["bad"][:2], seq=res["seq"])
    outs = harness.par_paths(ck, run, on_path, depth=2)
    ck.path(None, n=len(outs))
    for o in outs: ck.path("tensormap:%s" % (o["seq"],), n=0)
    badp = [o for o in outs if o["bad"]]
    if not badp: ck.ok("TensorMap: after every history of <= %d property reads / UBI replacements the held U, B, UB, mt, unitcell maps are those of the current UBI (%d histories)" % (depth, len(outs))); return
    for o in badp[:5]:
        if o["seq"] is None: continue
        msg = tensormap_replay(TM, o["seq"])
        if msg: ck.violation(msg, "tensor_map.py:TensorMap:stale-cache", dict(sequence=o["seq"])); return
    ck.not_reproduced("TensorMap histories: model says %s" % badp[0]["bad"])

def tensormap_replay(TM, seq):
    """the same history on the real TensorMap (compiled gufuncs, float maps of 2 voxels)"""
    rng = np.random.RandomState(7)
    def ubimap():
        cells = [np.diag([3.0, 3.5, 4.0]) + 0.2 * rng.standard_normal((3, 3)) for _ in range(2)]
        return np.array(cells).reshape(1, 1, 2, 3, 3)
    cur = ubimap(); tm = TM.TensorMap(maps={"UBI": cur.copy()}); done = []
    for op in seq:
        done.append(op)
        if op.startswith("get"): getattr(tm, op.split()[1])
        else:
            cur = ubimap()
            if op == "set UBI": tm.UBI = cur.copy()
            else: tm["UBI"] = cur.copy()
        ref = TM.TensorMap(maps={"UBI": cur.copy()})
        for nm in ("UB", "mt", "unitcell", "B", "U"):
            if nm in tm.maps and not np.allclose(tm.maps[nm], getattr(ref, nm), atol=1e-9, equal_nan=True):
                return "TensorMap after %s: the %s map it returns (%s ...) is not the one of its current UBI (%s ...)" % (done, nm, np.ravel(tm.maps[nm])[:3].tolist(), np.ravel(getattr(ref, nm))[:3].tolist())
    return None

def ubitocellpars_sym(IX, u):
    """indexing.ubitocellpars imports acos/degrees/sqrt from math inside the function: run it with those names bound to the symbolic versions"""
    import inspect, textwrap
    src = textwrap.dedent(inspect.getsource(IX.ubitocellpars)).replace("from math import acos, degrees, sqrt", "acos, degrees, sqrt = __M.acos, __M.degrees, __M.sqrt")
    ns = dict(vars(IX)); ns["np"] = pysym.NP; ns["__M"] = pysym.MATH
    exec(compile(src, "<ubitocellpars>", "exec"), ns)
    return ns["ubitocellpars"](u)

def concrete_compare(cell):
    import ImageD11.unitcell as UC, ImageD11.sinograms.tensor_map as TM, ImageD11.sinograms.point_by_point as PB
    uc = UC.unitcell(cell, "P"); B = uc.B
    r = np.zeros((3, 3)); pyf(TM.unitcell_to_b)(np.array(cell, float), None, r)
    if not np.allclose(r, B, atol=1e-9): return True, "tensor_map.unitcell_to_b(%s) = %s but unitcell.B = %s" % (cell, r.tolist(), B.tolist())
    ubi = np.linalg.inv(B) @ np.array([[0.36, 0.48, -0.8], [-0.8, 0.6, 0.0], [0.48, 0.64, 0.6]])
    U1 = pyf(PB.ubi_and_ucell_to_u)(ubi, np.array(cell, float)); U2 = np.dot(B, ubi).T
    if not np.allclose(U1, U2, atol=1e-9): return True, "point_by_point.ubi_and_ucell_to_u differs from (B.ubi)^T for cell %s" % cell
    if not np.allclose(B.T @ B, uc.gi, atol=1e-9): return True, "B^T B != reciprocal metric for cell %s" % cell
    return False, "copies agree numerically at the model point"
def concrete_ubi_compare(u):
    import ImageD11.grain as GR, ImageD11.indexing as IX, ImageD11.sinograms.tensor_map as TM, ImageD11.sinograms.point_by_point as PB
    g = GR.grain(u); bad = []
    r2 = np.zeros(6); m = np.zeros((3, 3)); pyf(TM.ubi_to_mt)(u, m); pyf(TM.mt_to_unitcell)(m, None, r2)
    if not np.allclose(r2, g.unitcell, atol=1e-8): bad.append("tensor_map cell %s vs grain.unitcell %s" % (r2.tolist(), g.unitcell.tolist()))
    if not np.allclose(pyf(PB.ubi_to_unitcell)(u), g.unitcell, atol=1e-8): bad.append("point_by_point.ubi_to_unitcell differs from grain.unitcell")
    if not np.allclose(IX.ubitocellpars(u), g.unitcell, atol=1e-8): bad.append("indexing.ubitocellpars differs from grain.unitcell")
    if not np.allclose(g.mt, u @ u.T, atol=1e-9): bad.append("grain.mt != ubi.ubi^T")
    if not np.allclose(g.rmt @ g.mt, np.eye(3), atol=1e-8): bad.append("grain.rmt is not the inverse of grain.mt: rmt.mt = %s" % (g.rmt @ g.mt).tolist())
    if not np.allclose(u @ g.UB, np.eye(3), atol=1e-9): bad.append("ubi.UB != I")
    if not np.allclose(g.U.T @ g.U, np.eye(3), atol=1e-8): bad.append("grain.U not orthogonal")
    if not np.allclose(g.U @ g.B, g.UB, atol=1e-8): bad.append("U.B != UB")
    return (len(bad) > 0), "; ".join(bad[:3]) + " (ubi=%s)" % u.tolist() if bad else "consistent at the model point"

if __name__ == "__main__":
    common.run_main(main)
