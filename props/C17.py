"""
C17 - columnfile stays rectangular and self-consistent under any operation sequence.
Decided by: symbolic execution (pysym) of the real ImageD11.columnfile.columnfile class on columns whose cells are symbolic
reals; masks, sort keys and removed values are symbolic (they fork through the solver); every operation sequence up to a bounded
depth over the operation alphabet is explored from dict-built, file-loaded and empty starting states; after every operation the
representation invariant, the agreement with a row-wise shadow model and the no-shared-storage rule for copies are checked.
"""
import sys, os, itertools, tempfile
sys.path.insert(0, os.path.join(os.path.dirname(os.path.abspath(__file__)), "..", "lib"))
import z3, numpy as np
from fractions import Fraction
import common, symcore, pysym, harness
from common import Check, parse_args
from pysym import Sym, SymBool, T, var
from symcore import CTX, EX

def term(x):
    if isinstance(x, Sym): return x.t
    return z3.RealVal(Fraction(float(x)))
def same(a, b): return z3.simplify(term(a) - term(b)).eq(z3.RealVal(0)) or z3.simplify(term(a)).eq(z3.simplify(term(b)))

class Shadow:
    """row-wise reference model: titles + list of columns (python lists of terms)"""
    def __init__(s, titles, cols): s.titles = list(titles); s.cols = [list(c) for c in cols]
    @property
    def nrows(s): return len(s.cols[0]) if s.cols else 0
    def copy(s): return Shadow(s.titles, s.cols)

def data_of(cf): return cf._columnfile__data

def invariant(cf, sh, where):
    bad = []
    data = data_of(cf)
    if len(cf.titles) != len(data): bad.append("%s: %d titles but %d columns" % (where, len(cf.titles), len(data)))
    if cf.titles != sh.titles: bad.append("%s: titles %s, expected %s" % (where, cf.titles, sh.titles))
    if sh.cols and cf.nrows != sh.nrows: bad.append("%s: nrows=%r, expected %d" % (where, cf.nrows, sh.nrows))
    for i, t in enumerate(cf.titles[:len(data)]):
        col = data[i]
        if len(col) != cf.nrows: bad.append("%s: column %s has %d entries, nrows=%r" % (where, t, len(col), cf.nrows)); continue
        try:
            a = getattr(cf, t); b = cf[t]; c = cf.getcolumn(t)
        except Exception as e:
            bad.append("%s: reading column %s raised %s" % (where, t, type(e).__name__)); continue
        if any(not hasattr(x, "__len__") for x in (a, b, c)):
            bad.append("%s: a view of column %s is not a column any more (attribute=%s)" % (where, t, type(a).__name__)); continue
        if not (len(a) == len(b) == len(c) == cf.nrows): bad.append("%s: views of %s have lengths %d/%d/%d, nrows=%r" % (where, t, len(a), len(b), len(c), cf.nrows)); continue
        for r in range(cf.nrows):
            if not (same(a[r], b[r]) and same(b[r], c[r])): bad.append("%s: attribute/item/getcolumn views of %s differ in row %d" % (where, t, r)); break
        if cf.nrows and not (np.shares_memory(a, b) and np.shares_memory(b, c)): bad.append("%s: attribute, item and getcolumn views of column %s are not the same storage" % (where, t))
        if i < len(sh.cols) and len(sh.cols[i]) == len(c):
            for r in range(len(c)):
                if not same(c[r], sh.cols[i][r]): bad.append("%s: column %s row %d holds %s, the same selection/permutation of every column gives %s" % (where, t, r, c[r], sh.cols[i][r])); break
    return bad

def no_shared(cfa, cfb, where):
    bad = []
    for ca in data_of(cfa):
        for cb in data_of(cfb):
            if len(ca) and len(cb) and np.shares_memory(np.asarray(ca), np.asarray(cb)): bad.append("%s: the copy shares storage with the original" % where); return bad
    return bad

# ---- the operation alphabet: (name, function(cf, sh, ctx) -> (cf', sh', extra checks))
CONCRETE = [False]      # file-loaded state: float64 columns cannot hold symbolic cells, so new data is concrete there
def ops(nrows_hint):
    fresh = itertools.count()
    def newcol(n, tag):
        if CONCRETE[0]:
            k = next(fresh); return np.array([100.0 * (k + 1) + 7.0 * r * (-1) ** r for r in range(n)], float)
        return np.array([var("%s%d_%d" % (tag, next(fresh), r)) for r in range(n)], dtype=object)
    def op_add_new(cf, sh):
        name = "n%d" % len(cf.titles); col = newcol(cf.nrows, "add"); cf.addcolumn(col, name); sh.titles.append(name); sh.cols.append(list(col)); return cf, sh, []
    def op_add_over(cf, sh):
        if not cf.titles: return None
        col = newcol(cf.nrows, "ovr"); cf.addcolumn(col, cf.titles[0]); sh.cols[0] = list(col); return cf, sh, []
    def op_setcolumn(cf, sh):
        if not cf.titles: return None
        col = newcol(cf.nrows, "setc"); cf.setcolumn(col, cf.titles[-1]); sh.cols[-1] = list(col); return cf, sh, []
    def op_setitem_arr(cf, sh):
        if not cf.titles: return None
        col = newcol(cf.nrows, "item"); cf[cf.titles[0]] = col; sh.cols[0] = list(col); return cf, sh, []
    def op_setitem_scalar(cf, sh):
        if not cf.titles: return None
        cf[cf.titles[-1]] = 7.5; sh.cols[-1] = [7.5] * sh.nrows; return cf, sh, []
    def op_setitem_new(cf, sh):
        name = "k%d" % len(cf.titles); col = newcol(cf.nrows, "inew"); cf[name] = col; sh.titles.append(name); sh.cols.append(list(col)); return cf, sh, []
    def op_setattr_arr(cf, sh):
        if not cf.titles: return None
        col = newcol(cf.nrows, "attr"); setattr(cf, cf.titles[0], col); sh.cols[0] = list(col); return cf, sh, []
    def op_setattr_scalar(cf, sh):
        if not cf.titles: return None
        setattr(cf, cf.titles[-1], 2.25); sh.cols[-1] = [2.25] * sh.nrows; return cf, sh, []
    def op_filter(cf, sh):
        if not cf.titles: return None
        bits = [SymBool(z3.Bool("m%d_%d" % (next(fresh), r))) for r in range(cf.nrows)]
        mask = np.array(bits, dtype=object) if bits else np.zeros(0, bool)
        cf.filter(mask)            # np.array(mask, dtype=bool) decides every bit through the solver
        keep = [r for r in range(len(bits)) if bool(bits[r])]
        sh.cols = [[c[r] for r in keep] for c in sh.cols]; return cf, sh, []
    def op_removerows(cf, sh):
        if not cf.titles or cf.nrows == 0: return None
        v = var("rm%d" % next(fresh)) if not CONCRETE[0] else float(term_float(sh.cols[0][0])); name = cf.titles[0]
        before = [c for c in sh.cols[0]]
        cf.removerows(name, [v], tol=0.5)
        keep = [r for r in range(len(before)) if not bool(abs(Sym(term(before[r])) - v) < 0.5)]
        sh.cols = [[c[r] for r in keep] for c in sh.cols]; return cf, sh, []
    def op_sortby(cf, sh):
        if not cf.titles: return None
        name = cf.titles[-1]; cf.sortby(name)
        n = sh.nrows; key = [Sym(term(x)) for x in sh.cols[-1]]
        got = list(data_of(cf)[len(cf.titles) - 1])
        extra = []
        for r in range(1, len(got)):
            if not bool(Sym(term(got[r - 1])) <= Sym(term(got[r]))): extra.append("sortby(%s): rows %d,%d out of order" % (name, r - 1, r))
        # permutation: recover it from the (path-decided) order of the key column
        order = sorted(range(n), key=lambda r: _Key(key[r]))
        sh.cols = [[c[r] for r in order] for c in sh.cols]; return cf, sh, extra
    def op_reorder(cf, sh):
        if not cf.titles: return None
        order = list(range(cf.nrows))[::-1]; cf.reorder(np.array(order, dtype=int)); sh.cols = [[c[r] for r in order] for c in sh.cols]; return cf, sh, []
    def op_copy(cf, sh):
        if not cf.titles: return None          # a columnfile without any column is outside the claim (set_bigarray needs one column)
        c2 = cf.copy(); return c2, sh.copy(), no_shared(c2, cf, "copy()") + invariant(cf, sh, "original after copy()")
    def op_copyrows(cf, sh):
        if not cf.titles or cf.nrows == 0: return None
        rows = [0] if cf.nrows < 2 else [cf.nrows - 1, 0]
        c2 = cf.copyrows(rows); s2 = Shadow(sh.titles, [[c[r] for r in rows] for c in sh.cols])
        return c2, s2, no_shared(c2, cf, "copyrows()") + invariant(cf, sh, "original after copyrows()")
    def op_get_bigarray(cf, sh):
        if not cf.titles: return None
        b = cf.bigarray
        extra = []
        if len(b) != len(cf.titles): extra.append("bigarray has %d rows for %d titles" % (len(b), len(cf.titles)))
        else:
            for i, t in enumerate(cf.titles):
                if len(b[i]) != sh.nrows: extra.append("bigarray row %s has %d entries, the columnfile has %d rows" % (t, len(b[i]), sh.nrows)); break
                if any(not same(b[i][r], sh.cols[i][r]) for r in range(sh.nrows)): extra.append("bigarray row %s does not hold the current column" % t); break
        return cf, sh, extra
    def op_set_bigarray(cf, sh):
        if not cf.titles: return None
        cols = [newcol(cf.nrows + 1, "big") for _ in cf.titles]; cf.bigarray = cols; sh.cols = [list(c) for c in cols]; return cf, sh, []
    # ---- arguments that are views of the object's own columns (cf.addcolumn(cf.tth, "tth_old"), cf.a = cf.b, cf.a = cf.a[::-1]): value semantics in the shadow
    def op_add_alias_new(cf, sh):
        if not cf.titles: return None
        name = "v%d" % len(cf.titles); cf.addcolumn(cf[cf.titles[-1]], name); sh.titles.append(name); sh.cols.append(list(sh.cols[-1])); return cf, sh, []
    def op_setattr_alias(cf, sh):
        if len(cf.titles) < 2: return None
        setattr(cf, cf.titles[0], cf[cf.titles[-1]]); sh.cols[0] = list(sh.cols[-1]); return cf, sh, []
    def op_setattr_flip(cf, sh):
        if not cf.titles: return None
        setattr(cf, cf.titles[0], getattr(cf, cf.titles[0])[::-1]); sh.cols[0] = list(sh.cols[0])[::-1]; return cf, sh, []
    def op_write_through(cf, sh):
        """write through one view, read through the others (the user-visible meaning of 'same data')"""
        if not cf.titles or cf.nrows == 0: return None
        t = cf.titles[0]; cf[t][:] = 3.5; sh.cols[0] = [3.5] * sh.nrows; return cf, sh, []
    return [("addcolumn(new)", op_add_new), ("addcolumn(existing)", op_add_over), ("setcolumn", op_setcolumn), ("cf[t]=array", op_setitem_arr), ("cf[t]=scalar", op_setitem_scalar),
            ("cf[new]=array", op_setitem_new), ("cf.t=array", op_setattr_arr), ("cf.t=scalar", op_setattr_scalar), ("filter", op_filter), ("removerows", op_removerows),
            ("sortby", op_sortby), ("reorder", op_reorder), ("copy", op_copy), ("copyrows", op_copyrows), ("get_bigarray", op_get_bigarray), ("set_bigarray", op_set_bigarray),
            ("cf[t][:]=scalar", op_write_through), ("addcolumn(view of a column, new name)", op_add_alias_new), ("cf.t=view of another column", op_setattr_alias), ("cf.t=cf.t[::-1]", op_setattr_flip)]

def term_float(x):
    t = z3.simplify(term(x)); return float(t.as_fraction())
class _Key:
    """sort key comparing symbolic values through the path explorer (decisions already taken by the real sort are replayed consistently)"""
    def __init__(s, v): s.v = v
    def __lt__(s, o): return bool(s.v < o.v)

_FLT = []
def start_states(CF):
    def from_dict(ncols, nrows):
        def mk():
            CONCRETE[0] = False
            cols = {"c%d" % j: np.array([var("c%d_%d" % (j, r)) for r in range(nrows)], dtype=object) for j in range(ncols)}
            cf = CF.colfile_from_dict(cols)
            return cf, Shadow(list(cols.keys()), [list(v) for v in cols.values()])
        return mk
    def from_file():
        if not _FLT: _FLT.append(os.path.join(common.scratch("verif_c17_"), "t.flt"))       # one scratch file per process (forked workers inherit the parent's)
        p = _FLT[0]
        if not os.path.exists(p):
            os.makedirs(os.path.dirname(p), exist_ok=True); open(p, "w").write("# wavelength = 0.5\n#  sc  fc  omega\n1.0 2.0 3.0\n4.5 5.5 6.5\n")
        cf = CF.columnfile(p); CONCRETE[0] = True
        return cf, Shadow(["sc", "fc", "omega"], [[1.0, 4.5], [2.0, 5.5], [3.0, 6.5]])
    def empty():
        cf = CF.newcolumnfile([]); cf.nrows = 2; CONCRETE[0] = False
        return cf, Shadow([], [])
    return [("dict 2x2", from_dict(2, 2)), ("dict 1x3", from_dict(1, 3)), ("file 3x2", from_file), ("empty (nrows preset to 2)", empty)]

def make_run(CF, start, seq_len, alphabet_names):
    def run():
        cf, sh = start()
        O = ops(2); names = [n for n, _ in O]
        bad = invariant(cf, sh, "start"); done = []; parents = []
        for step in range(seq_len):
            k = EX.pick(list(range(len(O))))
            name, f = O[k]; before = (cf, sh)
            try: r = f(cf, sh)
            except symcore.PathEnd: raise
            except Exception as e:
                bad.append("%s raised %s: %s after %s" % (name, type(e).__name__, str(e)[:80], done)); done.append(name); break
            if r is None: done.append(name + "(n/a)"); continue
            cf, sh, extra = r; done.append(name)
            if cf is not before[0]: parents.append(before + (list(done),))        # copy / copyrows: the original must stay untouched by whatever happens to the copy
            bad += ["after %s: %s" % (done, x) for x in extra]
            bad += invariant(cf, sh, "after %s" % done)
            for pcf, psh, when in parents: bad += invariant(pcf, psh, "the original of the copy made by %s, after %s on the copy" % (when[-1], done[len(when):]))
            if bad: break
        return dict(bad=bad, seq=done)
    return run

def on_path(res, pc, hyp, taken, status):
    if res is None: return dict(bad=["path ended: " + status], seq=None)
    return dict(bad=res["bad"][:3], seq=res["seq"])

def replay(seq, CF, sname="dict 2x2"):
    """concrete re-execution of an operation sequence on the real class with plain float columns and a float shadow model"""
    CONCRETE[0] = True
    try:
        if sname.startswith("file"):
            cf, sh = dict(start_states(CF))[sname](); CONCRETE[0] = True
        elif sname.startswith("empty"):
            cf = CF.newcolumnfile([]); cf.nrows = 2; sh = Shadow([], [])
        else:
            cols = {"c0": np.array([3.0, 1.0, 2.0])} if sname == "dict 1x3" else {"c0": np.array([3.0, 1.0, 2.0]), "c1": np.array([10.0, 30.0, 20.0])}
            cf = CF.colfile_from_dict({k: v.copy() for k, v in cols.items()}); sh = Shadow(list(cols), [list(v) for v in cols.values()])
        O = dict(ops(3)); done = []; parents = []
        def probe(cf, where):
            """write through the item view and look through the attribute view"""
            for t in cf.titles:
                a, b = getattr(cf, t), cf[t]
                if not hasattr(a, "__len__"): return "%s: cf.%s is a bare %s, not the column" % (where, t, type(a).__name__)
                if cf.nrows and len(a) == len(b):
                    old = b[0]; b[0] = old + 1000.0
                    ok = (a[0] == old + 1000.0) and (cf.getcolumn(t)[0] == old + 1000.0); b[0] = old
                    if not ok: return "%s: writing cf[%r][0] is not seen through cf.%s (views are different storage)" % (where, t, t)
            return None
        for name in seq:
            name = name.replace("(n/a)", "")
            if name == "filter":
                mask = np.arange(cf.nrows) % 2 == 0
                try: cf.filter(mask)
                except Exception as e: return "filter raised %s: %s after %s" % (type(e).__name__, e, done)
                keep = [r for r in range(len(mask)) if mask[r]]; sh.cols = [[c[r] for r in keep] for c in sh.cols]
            else:
                try: r = O[name](cf, sh)
                except Exception as e: return "%s raised %s: %s after %s" % (name, type(e).__name__, e, done)
                if r is None: done.append(name); continue
                old = (cf, sh); cf, sh, extra = r
                if cf is not old[0]: parents.append(old + (name,))
                if extra: return "after %s: %s" % (done + [name], extra[0])
            done.append(name)
            bad = invariant(cf, sh, "after %s" % done)
            for pcf, psh, when in parents: bad += invariant(pcf, psh, "the original of the copy made by %s, after %s" % (when, done))
            if bad: return bad[0]
            p = probe(cf, "after %s" % done)
            if p: return p
        return None
    finally: CONCRETE[0] = False

def main():
    args = parse_args("C17"); ck = Check("C17", args.tier); thorough = args.tier == "thorough"
    symcore.Explorer.incremental = True
    import ImageD11.columnfile as CF
    depth = 2       # sequences of 2 operations + a third (probing) one; 17^4 sequences (depth 3 + probe) ran beyond an hour and are outside the bound
    # quick: the third step only from the dict 2x2 and file-loaded states; thorough: from all four start states
    O = ops(2)
    ck.encoded(*["ImageD11/columnfile.py:columnfile.%s" % n for n in ("addcolumn", "setcolumn", "__setitem__", "__getitem__", "__setattr__", "getcolumn", "filter", "removerows", "sortby", "reorder", "copy", "copyrows",
                                                                      "get_bigarray", "set_bigarray", "set_attributes", "chkarray", "readfile")] + ["ImageD11/columnfile.py:colfile_from_dict", "ImageD11/columnfile.py:newcolumnfile"])
    ck.bound("every sequence of <= %d operations (then one more probing step) over the %d-operation alphabet %s" % (depth, len(O), [n for n, _ in O]),
             "starting states: dict-built 2 columns x 2 rows and 1 x 3 (symbolic cells), file-loaded 3 x 2 (text reader), empty with preset nrows",
             "cells symbolic reals; filter masks, sort keys and the removed value symbolic (decided by the solver on each path)",
             "HDF-loaded starting states reduce to the list-of-arrays representation after reading (their IO is C18 / not applicable)")
    ck.assume("object-dtype numpy arrays behave like float arrays for indexing/assignment", "removerows is exercised in its tolerance (floating) mode")
    starts = start_states(CF)
    dict(starts)["file 3x2"]()          # creates the shared scratch file in the parent, before workers are forked
    allbad = {}
    for sname, start in starts:
        for L in range(1, depth + 2):
            if L == depth + 1 and not thorough and sname not in ("dict 2x2", "file 3x2"): continue
            name = "%s, %d ops" % (sname, L)
            outs = harness.par_paths(ck, make_run(CF, start, L, None), on_path, depth=1 if L > 1 else 1, timeout_ms=20000)
            ck.path(None, n=len(outs))
            for o in outs:
                ck.path("%s:%s" % (sname, o["seq"]), n=0)
            badp = [o for o in outs if o["bad"]]
            if not badp: ck.ok("%s: invariant, shadow agreement and copy independence hold on all %d paths" % (name, len(outs)))
            for o in badp:
                key = o["bad"][0].split(": ", 1)[-1][:70]
                allbad.setdefault(key, (name, o, sname))
            ck.sample(dict(start=sname, ops=L, paths=len(outs)))
    reported = set()
    for key, (name, o, sname) in list(allbad.items())[:40]:
        if o["seq"] is None: ck.inconclusive.append("%s: %s" % (name, o["bad"])); continue
        r = replay(o["seq"], CF, sname)
        if r:
            fkey = finding_key(o["seq"], r)
            if fkey in reported: continue
            reported.add(fkey)
            ck.violation("sequence %s: %s" % (o["seq"], r), fkey, dict(sequence=o["seq"], model=o["bad"]))
        else: ck.not_reproduced("%s %s: model says %s" % (name, o["seq"], o["bad"][:2]))
    ck.finish("The real columnfile class is executed on symbolic cells through every operation sequence up to the depth bound; masks, sort keys and "
              "removed values are solver-decided forks; after each operation: one column per title, every column nrows long, attribute/item/getcolumn "
              "views equal and the same storage, contents equal to a row-wise shadow model (same selection / permutation in every column), copies "
              "share no storage. Violating sequences are replayed on the real class with float columns.")

def finding_key(seq, msg):
    ops_ = [s.replace("(n/a)", "") for s in seq]
    if "bare float" in msg or "bare int" in msg or ("cf.t=scalar" in ops_ and "raised" in msg): return "columnfile.py:__setattr__:scalar-replaces-column-attribute"
    if "get_bigarray" in ops_ and ("different storage" in msg or "views" in msg): return "columnfile.py:get_bigarray:views-desynchronised"
    if any("view of" in o for o in ops_) and any(o in ("sortby", "reorder", "cf[t][:]=scalar") for o in ops_) and "holds" in msg: return "columnfile.py:addcolumn:aliased-columns-permuted-twice"
    return "columnfile:%s:%s" % (ops_[-1] if ops_ else "?", msg.split(":")[-1][:40])

if __name__ == "__main__":
    common.run_main(main)
