"""
Shared plumbing of the /verif checks: evidence, known findings, solver bookkeeping, IR / shared-library builds,
process-parallel map.  Everything that is measured (queries, paths, obligations, solver time) is counted here.
"""
import os, sys, json, time, atexit, shutil, subprocess, tempfile, traceback, hashlib
import multiprocessing as mp

VERIF = os.path.dirname(os.path.dirname(os.path.abspath(__file__)))
REPO = os.environ.get("VERIF_REPO", "/repo")
EVIDENCE_DIR = os.environ.get("VERIF_EVIDENCE_DIR") or os.path.join(VERIF, "evidence")
# runs against a scratch copy of the repository (mutation testing) must not overwrite the evidence of /repo itself: they set VERIF_EVIDENCE_DIR too
SEED = int(os.environ.get("VERIF_SEED", "0") or 0)
NCPU = int(os.environ.get("VERIF_NCPU", "0") or 0) or min(16, os.cpu_count() or 1)

EXIT_OK, EXIT_VIOLATION, EXIT_INCONCLUSIVE = 0, 1, 3

import z3
z3.set_param("smt.random_seed", SEED % (2 ** 30))
z3.set_param("sat.random_seed", SEED % (2 ** 30))

# --------------------------------------------------------------------------------------------- scratch
_SCRATCH = []
_ROOT = [None]
def scratch_root():
    """one scratch root per check run, created in the parent process (Check.__init__) and removed by its atexit handler; forked pool workers inherit it,
    so directories they create are removed too (multiprocessing workers never run atexit handlers themselves)"""
    if _ROOT[0] is None or not os.path.isdir(_ROOT[0]):
        _ROOT[0] = tempfile.mkdtemp(prefix="verif_root_"); _SCRATCH.append((os.getpid(), _ROOT[0]))
    return _ROOT[0]
def scratch(prefix="verif_"):
    return tempfile.mkdtemp(prefix=prefix, dir=scratch_root())
def _cleanup():
    for pid, d in _SCRATCH:
        if pid == os.getpid(): shutil.rmtree(d, ignore_errors=True)
atexit.register(_cleanup)

# --------------------------------------------------------------------------------------------- builds
C_FILES = ["closest", "cdiffraction", "blobs", "connectedpixels", "sparse_image", "localmaxlabel", "darkflat",
           "cimaged11utils", "splat"]

def build_ir(names, openmp=False, ndebug=True, outdir=None):
    """clang -O0 -g textual IR for /repo/src/<name>.c, regenerated on every run. returns {name: path}"""
    outdir = outdir or scratch("verif_ir_")
    out = {}
    for n in names:
        src = os.path.join(REPO, "src", n + ".c")
        dst = os.path.join(outdir, "%s%s%s.ll" % (n, ".omp" if openmp else "", "" if ndebug else ".assert"))
        cmd = ["clang-14", "-S", "-emit-llvm", "-O0", "-Xclang", "-disable-O0-optnone", "-g", "-fno-discard-value-names",
               "-I" + os.path.join(VERIF, "stubs"), "-I" + os.path.join(REPO, "src"), src, "-o", dst]
        if openmp: cmd.insert(1, "-fopenmp")
        if ndebug: cmd.insert(1, "-DNDEBUG")
        r = subprocess.run(cmd, capture_output=True, text=True)
        if r.returncode != 0:
            raise RuntimeError("clang failed on %s:\n%s" % (src, r.stderr[-2000:]))
        out[n] = dst
    return out

_SO = {}
def build_so(openmp=True, extra=(), names=None, key=None):
    """gcc build of the real kernels into a scratch shared library (for replay through ctypes)"""
    k = key or (openmp, tuple(extra), tuple(names or ()))
    if k in _SO: return _SO[k]
    d = scratch("verif_so_")
    so = os.path.join(d, "libimd11.so")
    srcs = [os.path.join(REPO, "src", n + ".c") for n in (names or C_FILES)] + [os.path.join(VERIF, "stubs", "verif_exports.c")]
    cmd = ["gcc", "-shared", "-fPIC", "-O2", "-g", "-fno-strict-overflow", "-DNDEBUG", "-I" + os.path.join(REPO, "src")] + list(extra) + srcs + ["-o", so, "-lm"]
    if openmp: cmd.insert(1, "-fopenmp")
    r = subprocess.run(cmd, capture_output=True, text=True)
    if r.returncode != 0: raise RuntimeError("gcc failed:\n" + r.stderr[-3000:])
    import ctypes
    lib = ctypes.CDLL(so)
    _SO[k] = lib
    return lib

def src_hash(relpaths):
    h = hashlib.sha256()
    for p in relpaths:
        try: h.update(open(os.path.join(REPO, p), "rb").read())
        except OSError: h.update(b"?")
    return h.hexdigest()[:16]

# --------------------------------------------------------------------------------------------- parallel map
def _runner(args):
    f, item = args
    try:
        return ("ok", f(item))
    except BaseException as e:   # noqa
        return ("err", "%s: %s\n%s" % (type(e).__name__, e, traceback.format_exc()[-3000:]))

def pmap(f, items, ncpu=None, chunksize=1):
    """fork-based parallel map (f must be a module-level function); returns list of results, raises on worker errors"""
    items = list(items)
    n = min(ncpu or NCPU, max(1, len(items)))
    if not items: return []
    if os.environ.get("VERIF_NOFORK"):
        res = [_runner((f, it)) for it in items]
    else:
        ctx = mp.get_context("fork")
        with ctx.Pool(n, maxtasksperchild=50) as pool:
            res = pool.map(_runner, [(f, it) for it in items], chunksize)
    out = []
    for st, r in res:
        if st == "err": raise RuntimeError("worker failed: " + r)
        out.append(r)
    return out

# --------------------------------------------------------------------------------------------- solver wrapper
class Stats:
    def __init__(s): s.queries = 0; s.time = 0.0; s.unknown = 0; s.sat = 0; s.unsat = 0
    def add(s, o):
        s.queries += o.queries; s.time += o.time; s.unknown += o.unknown; s.sat += o.sat; s.unsat += o.unsat
    def asdict(s): return dict(queries=s.queries, solver_time_s=round(s.time, 3), sat=s.sat, unsat=s.unsat, unknown=s.unknown)
STATS = Stats()

def solve(assertions, timeout_ms=20000, want_model=False, tactic=None):
    """returns ('sat'|'unsat'|'unknown', model|None). every call is counted."""
    sol = z3.Solver() if tactic is None else z3.Tactic(tactic).solver()
    sol.set("timeout", int(timeout_ms))
    try: sol.set("random_seed", SEED % (2 ** 30))
    except z3.Z3Exception: pass
    for a in assertions: sol.add(a)
    t = time.time(); r = sol.check(); dt = time.time() - t
    STATS.queries += 1; STATS.time += dt
    rs = str(r)
    if rs == "sat": STATS.sat += 1
    elif rs == "unsat": STATS.unsat += 1
    else:
        STATS.unknown += 1
        d = os.environ.get("VERIF_DUMP_UNKNOWN")          # debugging aid: keep the queries the solver gave up on
        if d:
            os.makedirs(d, exist_ok=True); open(os.path.join(d, "q%d_%d.smt2" % (os.getpid(), STATS.queries)), "w").write(sol.to_smt2())
    return rs, (sol.model() if (rs == "sat" and want_model) else None)

# --------------------------------------------------------------------------------------------- known findings
def load_known():
    p = os.path.join(VERIF, "known_findings.json")
    if not os.path.exists(p): return []
    return json.load(open(p)).get("findings", [])

# --------------------------------------------------------------------------------------------- the check object
class Check:
    """One run of one property check.  Obligations are named; each ends as discharged / violated / undecided.
    'stretch' obligations may stay undecided without affecting the verdict (they are reported separately)."""
    def __init__(s, pid, tier, level="other"):
        s.pid, s.tier, s.level = pid, tier, level
        s.t0 = time.time(); scratch_root()
        s.obl = []            # dicts: name, status, stretch, detail
        s.paths = 0
        s.distinct = set()
        s.samples = []
        s.assumptions = []
        s.functions = []
        s.bounds = []
        s.stubs = []
        s.trusted = []
        s.violations = []     # dicts: what, replay(path), key
        s.known_hits = []
        s.inconclusive = []
        s.notes = []
        s.extra = {}
        s.vacuity = []
        s.known = [k for k in load_known() if k.get("property") == pid and k.get("status") == "finding"]
    # ---- recording
    def encoded(s, *names): s.functions += [n for n in names if n not in s.functions]
    def assume(s, *txt): s.assumptions += [t for t in txt if t not in s.assumptions]
    def bound(s, *txt): s.bounds += [t for t in txt if t not in s.bounds]
    def stub(s, *txt): s.stubs += [t for t in txt if t not in s.stubs]
    def trust(s, *txt): s.trusted += [t for t in txt if t not in s.trusted]
    def sample(s, x, cap=12):
        if len(s.samples) < cap: s.samples.append(x)
    def path(s, key=None, n=1):
        s.paths += n
        if key is not None: s.distinct.add(key if isinstance(key, (str, int, tuple)) else str(key))
    def ok(s, name, detail=None, stretch=False):
        s.obl.append(dict(name=name, status="discharged", stretch=stretch, detail=detail))
    def undecided(s, name, detail=None, stretch=False):
        s.obl.append(dict(name=name, status="undecided", stretch=stretch, detail=detail))
        if not stretch: s.inconclusive.append("%s: %s" % (name, detail))
    def vacuity_ok(s, name): s.vacuity.append(dict(name=name, reachable=True))
    def vacuity_fail(s, name):
        s.vacuity.append(dict(name=name, reachable=False)); s.inconclusive.append("vacuous harness: " + name)
    def prove(s, name, hyps, goal, timeout_ms=20000, stretch=False, detail=None):
        """unsat(hyps & not goal) -> discharged. returns ('unsat'|'sat'|'unknown', model)"""
        r, m = solve(list(hyps) + [z3.Not(goal)], timeout_ms, want_model=True)
        if r == "unsat": s.ok(name, detail, stretch)
        elif r == "unknown": s.undecided(name, "solver unknown/timeout %d ms" % timeout_ms, stretch)
        return r, m
    def merge_stats(s, d):
        """merge counts coming back from worker processes"""
        STATS.queries += d.get("queries", 0); STATS.time += d.get("solver_time_s", 0.0)
        STATS.sat += d.get("sat", 0); STATS.unsat += d.get("unsat", 0); STATS.unknown += d.get("unknown", 0)
    # ---- violations
    def violation(s, what, key, replay_obj):
        """a violation that REPRODUCED against the real code. key identifies the failing input / call site."""
        for k in s.known:
            if k.get("key") and k["key"] == key:
                if key not in [h["key"] for h in s.known_hits]:
                    s.known_hits.append(dict(key=key, what=k.get("what", what)))
                return "known"
        for v in s.violations:
            if v["key"] == key: v["count"] = v.get("count", 1) + 1; return "dup"
        d = os.path.join(EVIDENCE_DIR, "replay"); os.makedirs(d, exist_ok=True)
        p = os.path.join(d, "%s-%s.json" % (s.pid, hashlib.sha1(str(key).encode()).hexdigest()[:10]))
        json.dump(dict(property=s.pid, what=what, key=key, replay=replay_obj), open(p, "w"), indent=1, default=str)
        s.violations.append(dict(what=what, key=key, replay=p))
        return "new"
    def not_reproduced(s, what):
        s.inconclusive.append("solver model did not reproduce on the real code (encoding/stub artefact or boundary case): " + what)
    # ---- sub-checks run in worker processes
    def export(s):
        return dict(obl=s.obl, paths=s.paths, distinct=sorted(map(str, s.distinct)), samples=s.samples, violations=s.violations,
                    known_hits=s.known_hits, inconclusive=s.inconclusive, vacuity=s.vacuity, notes=s.notes, stats=STATS.asdict(), extra=s.extra)
    def absorb(s, d):
        s.obl += d["obl"]; s.paths += d["paths"]; s.distinct |= set(d["distinct"]); s.inconclusive += d["inconclusive"]
        s.vacuity += d["vacuity"]; s.notes += d["notes"]
        for x in d["samples"]: s.sample(x)
        for v in d["violations"]:
            if v["key"] not in [w["key"] for w in s.violations]: s.violations.append(v)
        for h in d["known_hits"]:
            if h["key"] not in [w["key"] for w in s.known_hits]: s.known_hits.append(h)
        s.merge_stats(d["stats"])
    # ---- finish
    def finish(s, explanation):
        wall = time.time() - s.t0
        nob = len([o for o in s.obl if not o["stretch"]]); ndis = len([o for o in s.obl if not o["stretch"] and o["status"] == "discharged"])
        stretch = [o for o in s.obl if o["stretch"]]
        cov = dict(
            explanation=explanation,
            evaluations=int(s.paths + STATS.queries),
            distinct_nontrivial=int(len(s.distinct)),
            rule="evaluations = symbolic paths explored + SMT queries issued; distinct_nontrivial = number of distinct "
                 "(path condition / obligation) keys that reached at least one property assertion",
            samples=s.samples or ["(none recorded)"],
            obligations=nob, discharged=ndis,
            stretch_obligations=len(stretch), stretch_discharged=len([o for o in stretch if o["status"] == "discharged"]),
            undecided=[o["name"] for o in s.obl if o["status"] == "undecided"][:40],
            paths=s.paths, functions_encoded=s.functions, bounds=s.bounds, stubs=s.stubs, trusted_base=s.trusted,
            vacuity_witnesses=s.vacuity, known_findings_hit=s.known_hits,
            checker_cmd="./check %s --tier %s" % (s.pid, s.tier),
            solver="z3 %s (python API)" % z3.get_version_string(),
            repo_tree_regenerated=True, notes=s.notes,
        )
        cov.update(STATS.asdict()); cov.update(s.extra)
        ev = dict(property_id=s.pid, tier=s.tier, seed=SEED, level=s.level, coverage=cov, assumptions=s.assumptions,
                  wall_s=round(wall, 2), violations=len(s.violations))
        os.makedirs(EVIDENCE_DIR, exist_ok=True)
        json.dump(ev, open(os.path.join(EVIDENCE_DIR, s.pid + ".json"), "w"), indent=1, default=str)
        if REPLAY:
            hit = [v for v in s.violations if str(v["key"]) == str(REPLAY["key"])]
            if hit:
                print("VIOLATION property=%s replay=%s" % (s.pid, REPLAY["file"])); print("    reproduced on the current tree:", hit[0]["what"][:400]); sys.exit(EXIT_VIOLATION)
            known = [h for h in s.known_hits if str(h["key"]) == str(REPLAY["key"])]
            if known: print("KNOWN-FINDING: property=%s %s" % (s.pid, known[0]["what"])); sys.exit(EXIT_OK)
            print("REPLAY: the recorded violation (key %s) does not occur on the current tree%s" % (REPLAY["key"], "; other violations were found: %s" % [v["key"] for v in s.violations][:3] if s.violations else "")); sys.exit(EXIT_OK if not s.inconclusive else EXIT_INCONCLUSIVE)
        for h in s.known_hits:
            print("KNOWN-FINDING: property=%s %s" % (s.pid, h["what"]))
        print("[%s %s] obligations %d/%d discharged, stretch %d/%d, paths %d, queries %d, solver %.1fs, wall %.1fs" % (
            s.pid, s.tier, ndis, nob, cov["stretch_discharged"], len(stretch), s.paths, STATS.queries, STATS.time, wall))
        if s.violations:
            for v in s.violations:
                print("VIOLATION property=%s replay=%s" % (s.pid, v["replay"]))
                print("   ", v["what"])
            sys.stdout.flush(); os._exit(EXIT_VIOLATION) if False else sys.exit(EXIT_VIOLATION)
        if s.inconclusive:
            print("INCONCLUSIVE (%d):" % len(s.inconclusive))
            for i in s.inconclusive[:20]: print("   ", i)
            sys.exit(EXIT_INCONCLUSIVE)
        sys.exit(EXIT_OK)

def parse_args(pid):
    import argparse
    ap = argparse.ArgumentParser(prog="check " + pid)
    ap.add_argument("--tier", default=os.environ.get("VERIF_TIER", "quick"), choices=["quick", "thorough"])
    ap.add_argument("--replay", default=None)
    ap.add_argument("--only", default=None, help="comma list of sub-harness names (debugging)")
    a = ap.parse_args(sys.argv[1:])
    if a.replay:
        # replay of a recorded counterexample: the check is re-run on the current tree (its encodings are regenerated anyway) and only the recorded
        # violation key counts; the evidence file of the property is not rewritten by a replay
        global EVIDENCE_DIR
        rec = json.load(open(a.replay)); REPLAY["key"] = rec.get("key"); REPLAY["what"] = rec.get("what"); REPLAY["file"] = a.replay
        EVIDENCE_DIR = scratch("verif_replay_ev_")
        print("REPLAY of %s\n  recorded: %s\n  key: %s" % (a.replay, str(rec.get("what"))[:300], rec.get("key")))
    return a
REPLAY = {}


def run_main(main):
    """exit-code discipline: only a reproduced violation may exit 1; any harness error is 3 (inconclusive)"""
    try:
        main()
    except SystemExit: raise
    except BaseException as e:
        traceback.print_exc()
        print("HARNESS-ERROR (inconclusive, not a verdict): %s: %s" % (type(e).__name__, e))
        sys.stdout.flush(); sys.exit(EXIT_INCONCLUSIVE)
