"""
Generic harness helpers on top of symcore/pysym: prove a list of goals on every path of a symbolically executed
function; turn `sat` models into concrete inputs and replay them on the real code before reporting.
"""
import z3, time, math
from fractions import Fraction
import common, symcore, pysym
from symcore import CTX, EX

free_vars = symcore.free_vars
def cone(hyps, goal): return symcore.cone(hyps, [goal])

def model_inputs(m, inputs):
    """inputs: {name: z3 term} -> {name: float}"""
    out = {}
    for k, t in inputs.items():
        try: out[k] = pysym.model_float(m, t)
        except Exception: out[k] = None
    return out

def angle_from_pair(m, c, s):
    return math.atan2(pysym.model_float(m, s), pysym.model_float(m, c))

def run_identities(ck, name, fn, replay=None, timeout_ms=20000, maxpaths=2000, stretch=False, key=None,
                   expect_paths=None, pre=None, keyfn=None, budget_s=None, vacuity=True):
    """fn() -> dict(goals=[(label, z3 Bool goal)], inputs={name: term}, pre=[z3 Bool], angles={name:(arg,)})
    Every goal is proved under hyp & pc & pre on every path.  replay(inputs_floats, label) -> (reproduced:bool, detail)"""
    npaths = 0; nviol = 0
    for res, pc, hyp, taken, status in symcore.explore(fn, maxpaths=maxpaths, timeout_ms=timeout_ms, budget_s=budget_s):
        npaths += 1
        if res is None:
            ck.path(("%s|%s" % (name, taken)))
            if status.startswith("inconclusive"): ck.undecided("%s@%s" % (name, taken), status, stretch=stretch)
            continue
        pre_ = list(res.get("pre", [])) + list(pre or [])
        base = list(hyp) + list(pc) + pre_
        # vacuity witness per path: the hypotheses must be satisfiable
        r = "skipped"
        if vacuity: r, _ = common.solve(base, min(timeout_ms, 5000))       # vacuity witness; 'unknown' within 5 s is neither a witness nor a failure
        if r == "unsat":
            ck.vacuity_fail("%s path %s" % (name, taken)); continue
        if r == "sat": ck.vacuity_ok("%s path %s" % (name, taken))
        base0 = base
        for label, goal, *rest in res["goals"]:
            base = base0
            if rest and rest[0]:        # cut points: (term, fresh constant) pairs substituted in the goal AND in every hypothesis
                base = [z3.substitute(h, *rest[0]) for h in base0]; goal = z3.substitute(goal, *rest[0])
            oname = "%s/%s@%s" % (name, label, "".join("T" if d is True else "F" if d is False else str(d) for d in taken))
            if z3.is_true(z3.simplify(goal)):                  # syntactically identical terms: nothing to ask the solver
                ck.ok(oname, "identical terms", stretch); ck.path(oname, n=0); continue
            r, m = ck.prove(oname, cone(base, goal), goal, timeout_ms, stretch=stretch)
            ck.path(oname, n=0)
            if r == "sat":
                r2, m2 = common.solve(base + [z3.Not(goal)], timeout_ms, want_model=True)   # full model incl. dropped hypotheses
                if r2 == "sat": m = m2
                vals = model_inputs(m, res.get("inputs", {}))
                for an, (c, s) in res.get("angle_pairs", {}).items():
                    try: vals[an] = math.degrees(angle_from_pair(m, c, s)) if res.get("angles_in_degrees", True) else angle_from_pair(m, c, s)
                    except Exception: vals[an] = None
                if replay is None:
                    ck.not_reproduced("%s: sat model %s (no replay available)" % (oname, vals)); continue
                try: ok, detail = replay(vals, label)
                except Exception as e: ok, detail = False, "replay raised %s: %s" % (type(e).__name__, e)
                if ok:
                    st = ck.violation("%s fails: %s" % (oname, detail), (keyfn(name, label) if keyfn else key) or ("%s/%s" % (name, label)), dict(inputs=vals, label=label, harness=name))
                    nviol += 1
                else:
                    ck.not_reproduced("%s: model %s -> %s" % (oname, vals, detail))
        ck.path(("%s|%s" % (name, taken)))
        base = base0
        ck.sample(dict(harness=name, path=[str(c)[:80] for c in pc][:6], goals=[g[0] for g in res["goals"]][:8]))
    if expect_paths is not None and npaths != expect_paths:
        ck.inconclusive.append("%s: expected %d paths, explored %d" % (name, expect_paths, npaths))
    return npaths

def close(a, b, rtol=1e-9, atol=1e-9):
    return abs(a - b) <= atol + rtol * max(abs(a), abs(b))


# --------------------------------------------------------------------------------------------- process-parallel harness jobs
_JOBS = {}
def _job(i):
    ck0, name, fn, kw = _JOBS[i]
    common.STATS.__init__()
    sub = common.Check(ck0.pid, ck0.tier)
    try: run_identities(sub, name, fn, **kw)
    except symcore.Inconclusive as e: raise symcore.Inconclusive("%s: %s" % (name, e))
    return sub.export()

def run_parallel(ck, jobs, ncpu=None):
    """jobs: list of (name, fn, kwargs for run_identities).  Each job runs in a forked worker; results are merged into ck."""
    _JOBS.clear()
    for i, (name, fn, kw) in enumerate(jobs): _JOBS[i] = (ck, name, fn, kw)
    for d in common.pmap(_job, list(range(len(jobs))), ncpu): ck.absorb(d)

# --------------------------------------------------------------------------------------------- path-parallel exploration
_PP = {}
def _pp_job(prefix):
    run, on_path, tmo, maxpaths = _PP["job"]
    common.STATS.__init__()
    out = []
    for res, pc, hyp, taken, status in symcore.explore(run, maxpaths=maxpaths, prefixes=[prefix], timeout_ms=tmo):
        out.append(on_path(res, pc, hyp, taken, status))
    return out, common.STATS.asdict()

def par_paths(ck, run, on_path, depth=4, timeout_ms=20000, maxpaths=500000):
    """explore all paths of run() in parallel worker processes (split at `depth` decisions).
    on_path(res, pc, hyp, taken, status) -> small picklable summary; returns the list of summaries."""
    _PP["job"] = (run, on_path, timeout_ms, maxpaths)
    prefixes = symcore.split_prefixes(run, depth, timeout_ms)
    outs = []
    for o, st in common.pmap(_pp_job, prefixes):
        outs += o; ck.merge_stats(st)
    return outs

def _ppm_job(arg):
    tag, prefix = arg
    run, on_path, tmo, maxpaths = _PP["multi"][tag]
    common.STATS.__init__()
    out = []
    for res, pc, hyp, taken, status in symcore.explore(run, maxpaths=maxpaths, prefixes=[prefix], timeout_ms=tmo):
        out.append(on_path(res, pc, hyp, taken, status))
    return tag, out, common.STATS.asdict()

def par_paths_multi(ck, jobs, depth=4, timeout_ms=20000, maxpaths=500000):
    """several path explorations in ONE worker pool. jobs: [(tag, run, on_path)] -> {tag: [summaries]}"""
    _PP["multi"] = {tag: (run, on_path, timeout_ms, maxpaths) for tag, run, on_path in jobs}
    work = []
    for tag, run, on_path in jobs:
        for p in symcore.split_prefixes(run, depth, timeout_ms): work.append((tag, p))
    res = {tag: [] for tag, _, _ in jobs}
    for tag, out, st in common.pmap(_ppm_job, work):
        res[tag] += out; ck.merge_stats(st)
    return res


# --------------------------------------------------------------------------------------------- pure functions must have no memory
def fresh_module_copy(mod):
    """a pristine second instance of a module of /repo (its module-level state - caches, memo tables - starts empty)"""
    import importlib.util, sys
    name = mod.__name__ + "__verif_copy"
    spec = importlib.util.spec_from_file_location(name, mod.__file__); m = importlib.util.module_from_spec(spec)
    m.__package__ = mod.__package__ if getattr(mod, "__package__", None) else mod.__name__.rpartition(".")[0]
    sys.modules[name] = m
    try: spec.loader.exec_module(m)
    finally: sys.modules.pop(name, None)
    return m

def history_goals(mod, fname, call, params, order=None):
    """Functions documented as pure maps (parameters -> result) are called TWICE on one module instance: first with parameter `k` set to q_k, then with p_k;
    the second result must equal the result of a first call on a pristine instance of the module.  All other parameters keep generic concrete values, so that
    a memo table keyed on them is really exercised (a symbolic key would fall into any `except TypeError` fallback).  One goal list per parameter.
    call(module_instance, fname, params_dict) -> flat list of result entries"""
    goals = []; was = pysym.NPProxy.FLOATS_AS_OBJECTS; pysym.NPProxy.FLOATS_AS_OBJECTS = True
    try: return _history_goals(mod, fname, call, params, order, goals)
    finally: pysym.NPProxy.FLOATS_AS_OBJECTS = was
def _history_goals(mod, fname, call, params, order, goals):
    for k in (order or list(params)):
        pk = pysym.var("p_" + k); qk = pysym.var("q_" + k)
        m0 = fresh_module_copy(mod); m1 = fresh_module_copy(mod)
        with pysym.symbolize(m0): ref = call(m0, fname, dict(params, **{k: pk}))
        with pysym.symbolize(m1):
            call(m1, fname, dict(params, **{k: qk}))
            got = call(m1, fname, dict(params, **{k: pk}))
        if len(ref) != len(got): goals.append(("H %s: second call with another %s returns %d values, a pristine module %d" % (fname, k, len(got), len(ref)), z3.BoolVal(False))); continue
        for i, (a, b) in enumerate(zip(got, ref)):
            goals.append(("H %s(%s := p) after %s(%s := q) equals the first call of a pristine module [%d]" % (fname, k, fname, k, i), pysym.tz(a) == pysym.tz(b)))
    return goals
