"""ctypes access to the real kernels rebuilt from /repo/src (gcc, as shipped flags) for replaying solver models."""
import ctypes as C, numpy as np
import common

def lib(openmp=True, extra=(), key=None): return common.build_so(openmp=openmp, extra=extra, key=key)

def dptr(a): return a.ctypes.data_as(C.POINTER(C.c_double))
def iptr(a): return a.ctypes.data_as(C.POINTER(C.c_int))
def fptr(a): return a.ctypes.data_as(C.POINTER(C.c_float))

def score(ubi, gv, tol, L=None):
    L = L or lib(); ubi = np.ascontiguousarray(ubi, float); gv = np.ascontiguousarray(gv, float).reshape(-1, 3)
    L.score.restype = C.c_int
    return L.score(dptr(ubi), dptr(gv), C.c_double(tol), C.c_int(len(gv)))

def score_and_refine(ubi, gv, tol, L=None):
    L = L or lib(); ubi = np.array(ubi, float, order="C").copy(); gv = np.ascontiguousarray(gv, float).reshape(-1, 3)
    n = C.c_int(0); s = C.c_double(0); L.score_and_refine.restype = None
    L.score_and_refine(dptr(ubi), dptr(gv), C.c_double(tol), C.byref(n), C.byref(s), C.c_int(len(gv)))
    return ubi, n.value, s.value

def refine_assigned(ubi, gv, labels, label, L=None):
    L = L or lib(); ubi = np.array(ubi, float, order="C").copy(); gv = np.ascontiguousarray(gv, float).reshape(-1, 3)
    labels = np.ascontiguousarray(labels, np.int32); n = C.c_int(0); s = C.c_double(0); L.refine_assigned.restype = None
    L.refine_assigned(dptr(ubi), dptr(gv), iptr(labels), C.c_int(label), C.byref(n), C.byref(s), C.c_int(len(gv)))
    return ubi, n.value, s.value

def score_and_assign(ubi, gv, tol, drlv2, labels, label, L=None):
    L = L or lib(); ubi = np.ascontiguousarray(ubi, float); gv = np.ascontiguousarray(gv, float).reshape(-1, 3)
    drlv2 = np.array(drlv2, float).copy(); labels = np.array(labels, np.int32).copy(); L.score_and_assign.restype = C.c_int
    n = L.score_and_assign(dptr(ubi), dptr(gv), C.c_double(tol), dptr(drlv2), iptr(labels), C.c_int(label), C.c_int(len(gv)))
    return n, drlv2, labels
