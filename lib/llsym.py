"""
llsym: symbolic interpreter for the subset of LLVM-14 textual IR that `clang -O0 -g` emits for ImageD11's C kernels.
Ints: python int | z3 Int (explicit no-signed-overflow checks); floats: Fraction | z3 Real (real model, DESIGN 2.8);
pointers: (object, byte offset).  Every access is bounds/initialisation/lifetime checked.  Path forking by re-execution
with a decision prefix (symcore.EX).  Any unsupported instruction raises NotImplementedError -> the check is inconclusive.
"""
import re, os, z3, sys, time, math, struct
from fractions import Fraction
import symcore
from symcore import CTX, EX, PathEnd, Inconclusive, PIq, to_real, umul

# ----------------------------------------------------------------------------- parsing
class Func:
    def __init__(s, name, rettype, params):
        s.name, s.rettype, s.params = name, rettype, params
        s.blocks = {}; s.order = []; s.dbgvars = {}
class Ins:
    __slots__ = ("res", "op", "text", "line", "cache")
    def __init__(s, res, op, text, line): s.res, s.op, s.text, s.line, s.cache = res, op, text, line, None

def split_top(s, sep=","):
    out, depth, cur = [], 0, ""
    for ch in s:
        if ch in "([{<": depth += 1
        if ch in ")]}>": depth -= 1
        if ch == sep and depth == 0:
            out.append(cur.strip()); cur = ""
        else: cur += ch
    if cur.strip(): out.append(cur.strip())
    return out

def parse_type(s):
    """returns (type, rest)"""
    s = s.lstrip()
    m = re.match(r"(i\d+|float|double|void|metadata|label|%[\w.]+)", s)
    if m:
        t = m.group(1); rest = s[m.end():]
    elif s.startswith("["):
        depth = 0
        for i, ch in enumerate(s):
            if ch == "[": depth += 1
            if ch == "]":
                depth -= 1
                if depth == 0: break
        inner = s[1:i]; n, et = inner.split(" x ", 1)
        t = ("arr", int(n), parse_type(et)[0]); rest = s[i+1:]
    elif s.startswith("{"):
        i = s.index("}"); t = ("struct", s[1:i]); rest = s[i+1:]
    else:
        raise ValueError("type? " + s[:40])
    while True:
        r = rest.lstrip()
        if r.startswith("*"):
            t = ("ptr", t); rest = r[1:]
        elif r.startswith("("):  # function type
            depth = 0
            for i, ch in enumerate(r):
                if ch == "(": depth += 1
                if ch == ")":
                    depth -= 1
                    if depth == 0: break
            t = ("fn", t); rest = r[i+1:]
        else: break
    return t, rest

def sizeof(t):
    if isinstance(t, str):
        if t[0] == "i": return max(1, int(t[1:]) // 8)
        return {"float": 4, "double": 8}[t]
    if t[0] == "ptr": return 8
    if t[0] == "arr": return t[1] * sizeof(t[2])
    raise ValueError(t)

ATTR = re.compile(r"\b(noundef|nonnull|noalias|nocapture|readonly|readnone|writeonly|signext|zeroext|inreg|returned|immarg|dereferenceable\(\d+\)|align \d+)\b")

class Module:
    def __init__(s):
        s.funcs = {}; s.meta = {}; s.globals = {}
    def load(s, path):
        cur = None; blk = None
        lines = open(path).read().split("\n"); merged = []; i = 0
        while i < len(lines):
            L = lines[i]
            if L.strip().startswith("switch") and L.rstrip().endswith("["):
                while not lines[i].strip().startswith("]"):
                    i += 1; L += " " + lines[i].strip()
            merged.append(L); i += 1
        for raw in merged:
            line = raw.rstrip("\n")
            if line.startswith("!"):
                m = re.match(r"(!\d+) = (?:distinct )?!(\w+)\((.*)\)", line)
                if m: s.meta[m.group(1)] = (m.group(2), m.group(3))
                continue
            if line.startswith("define"):
                m = re.match(r"define .*?([\w\[\] x.%*]+?) @([\w.$]+)\((.*)\)[^)]*\{", line)
                head = line[len("define"):]
                at = head.index("@"); rett = head[:at].split()[-1]
                name = re.match(r"@([\w.$]+)", head[at:]).group(1)
                p0 = head.index("(", at); depth = 0
                for i in range(p0, len(head)):
                    if head[i] == "(": depth += 1
                    if head[i] == ")":
                        depth -= 1
                        if depth == 0: break
                params = []
                for p in split_top(head[p0+1:i]):
                    if p == "...": continue
                    t, rest = parse_type(p)
                    nm = rest.split()[-1] if rest.strip() else None
                    params.append((t, nm))
                cur = Func(name, parse_type(rett if not rett.endswith(")") else "void")[0] if rett != "void" else "void", params)
                s.funcs[name] = cur
                first = "%" + str(len(params)) if all(re.match(r"%\d+$", p[1] or "") for p in params) else "%entry"
                blk = "entry"; cur.blocks[blk] = []; cur.order.append(blk); cur.entry = blk
                continue
            if cur is None: continue
            if line == "}": cur = None; continue
            m = re.match(r"([\w.$-]+):", line)
            if m and not line.startswith(" "):
                blk = m.group(1); cur.blocks[blk] = []; cur.order.append(blk); continue
            t = line.strip()
            if not t or t.startswith(";"): continue
            dbg = None
            m = re.search(r", !dbg (!\d+)", t)
            if m: dbg = m.group(1)
            t = re.sub(r", ![\w.]+ !\d+", "", t)
            t = re.sub(r", align \d+", "", t)
            res = None
            m = re.match(r"(%[\w.]+) = (.*)", t)
            if m: res, t = m.group(1), m.group(2)
            op = t.split()[0]
            if op == "tail" or op == "notail" or op == "musttail": t = t.split(None, 1)[1]; op = "call"
            cur.blocks[blk].append(Ins(res, op, t, dbg))
            if op == "call" and "@llvm.dbg.declare" in t:
                m = re.search(r"metadata [^,]*? (%[\w.]+), metadata (!\d+)", t)
                if m: cur.dbgvars[m.group(1)] = m.group(2)
    def srcline(s, dbg):
        if dbg in s.meta:
            m = re.search(r"line: (\d+)", s.meta[dbg][1]); return int(m.group(1)) if m else None
    def varname(s, md):
        if md in s.meta:
            m = re.search(r'name: "(\w+)"', s.meta[md][1]); return m.group(1) if m else None

# ----------------------------------------------------------------------------- values
class Ptr:
    __slots__ = ("obj", "off")
    def __init__(s, obj, off): s.obj, s.off = obj, off
    def __repr__(s): return "Ptr(%s+%s)" % (s.obj.name if s.obj else None, s.off)
class Uninit:
    def __repr__(s): return "UNINIT"
UNINIT = Uninit()
class Obj:
    def __init__(s, name, size, init=None, kind="arg"):
        s.name, s.size, s.init, s.kind = name, size, init, kind
        s.mem = {}; s.freed = False; s.zero = False
class Violation(Exception): pass
class IterTruncated(BaseException): pass       # footprint mode: one abstract parallel iteration exceeded its instruction budget

def is_sym(v): return isinstance(v, z3.ExprRef)
def fr(v):
    return v if isinstance(v, Fraction) else Fraction(v)

MULMODE = ["nra"]
# ----------------------------------------------------------------------------- interpreter
# literals that clang folds from the PI macro of the sources: mapped to expressions of the same rational pi (DESIGN 2.8)
_PIf = 3.141592653589793
PI_LITERALS = {Fraction(_PIf): PIq, Fraction(_PIf / 180.0): PIq / 180, Fraction(180.0 / _PIf): Fraction(180) / PIq,
               Fraction(_PIf / 2): PIq / 2, Fraction(2 * _PIf): 2 * PIq, Fraction(_PIf / 360.0): PIq / 360}
class TeamBarrier(Exception): pass
class Interp:
    def __init__(s, mod, ex=None, float_mode="real", max_steps=2_000_000):
        s.mod, s.ex = mod, (ex or EX); s.steps = 0; s.max_steps = max_steps; s.foot_start = None; s.foot_limit = 6000; s.foot_truncated = False
        s.events = []      # (kind, msg, line)
        s.nobj = 0; s.fresh_n = 0
        s.trig = {}; s.accesses = None; s.call_hooks = {}; s.lastframe = {}; s.frames = {}; s.stack = []; s.omp_mode = 'seq'; s.in_reduction = False; s.cur_tid = 0; s.num_threads = 1; s._disp = 0; s.store_hooks = {}; s.call_replace = {}
    def fresh_real(s, p="f"):
        s.fresh_n += 1; return z3.Real("%s!%d" % (p, s.fresh_n))
    def newobj(s, name, size, init=None, kind="arg"):
        s.nobj += 1; return Obj("%s#%d" % (name, s.nobj), size, init, kind)
    def report(s, kind, msg, ins):
        line = s.mod.srcline(ins.line) if ins is not None else None
        s.events.append((kind, msg, line))
    # ---- operand evaluation
    def const(s, ty, tok):
        if tok in ("true", "false"): return tok == "true"
        if tok == "null": return Ptr(None, 0)
        if tok in ("undef", "poison"): return UNINIT
        if tok == "zeroinitializer": return 0
        if ty in ("float", "double"):
            if tok.startswith("0x"):
                v = Fraction(struct.unpack(">d", bytes.fromhex(tok[2:].rjust(16, "0")))[0])
            else: v = Fraction(float(tok))
            return PI_LITERALS.get(v, v)
        return int(tok)
    def val(s, env, ty, tok):
        tok = tok.strip()
        if tok.startswith("%"): return env[tok]
        if tok.startswith("@"): return ("global", tok)
        if tok.startswith("bitcast (") or tok.startswith("getelementptr ("): return ("constexpr", tok)
        if tok.startswith("getelementptr") or tok.startswith("bitcast"): return ("constexpr", tok)
        return s.const(ty, tok)
    def typed(s, env, text):
        t, rest = parse_type(text)
        rest = ATTR.sub("", rest).strip()
        return t, s.val(env, t, rest)
    # ---- memory
    def resolve(s, p, nbytes, ins, write):
        if not isinstance(p, Ptr) or p.obj is None:
            s.report("null-deref", "access through %r" % (p,), ins); raise PathEnd("null")
        o = p.obj
        if o.freed: s.report("use-after-free", o.name, ins)
        off = p.off
        if is_sym(off):
            off = z3.simplify(off)
            if z3.is_int_value(off): off = off.as_long()
        if is_sym(off):
            if s.ex.feasible([z3.Or(off < 0, off + nbytes > o.size)]):
                m = s.ex.model([z3.Or(off < 0, off + nbytes > o.size)])
                s.report("out-of-bounds", "%s %s size %d offset %s" % ("write" if write else "read", o.name, o.size, m.eval(off)), ins)
                s.last_model = m
                s.ex.pc.append(z3.And(off >= 0, off + nbytes <= o.size))
            k = s.ex.choose(off / nbytes if False else off, 0, o.size)
            off = k
        if off < 0 or off + nbytes > o.size:
            s.report("out-of-bounds", "%s %s size %d offset %d (+%d)" % ("write" if write else "read", o.name, o.size, off, nbytes), ins)
            raise PathEnd("oob")
        if s.accesses is not None: s.accesses.append((o, off, nbytes, write, ins, s.in_reduction))
        if o.kind == "shared" and getattr(s, "yield_hook", None): s.yield_hook(o, off, write, ins)
        return o, off
    def load(s, p, ty, ins):
        n = sizeof(ty)
        if isinstance(p, Ptr) and p.obj is not None and getattr(p.obj, "symbolic", False):
            o = p.obj; off = p.off if is_sym(p.off) else z3.IntVal(p.off)
            if s.accesses is not None: s.accesses.append((o, off, n, False, ins, s.in_reduction))
            isf = ty in ("float", "double")
            rd = z3.Function("rd_" + o.name.split("#")[0], z3.IntSort(), z3.RealSort() if isf else z3.IntSort())
            v = rd(off)
            for (woff, wv, wn) in o.wlog:
                wv2 = wv if is_sym(wv) else (z3.RealVal(wv) if isf else z3.IntVal(wv))
                v = z3.If(off == woff, wv2, v)
            return v
        o, off = s.resolve(p, n, ins, False)
        if off in o.mem:
            v, sz = o.mem[off]
            if sz == n: return v
            # type-punned scalar passing (OpenMP firstprivate: a float is stored into an i64 slot, the slot is passed by value and read back
            # as float): the narrow value travels inside a token; nothing else may be done with the wide value
            if isinstance(v, tuple) and len(v) == 3 and v[0] == "packed" and v[2] == n: return v[1]
            if sz < n and not isinstance(off, z3.ExprRef) and not any((off + b) in o.mem for b in range(sz, n)): return ("packed", v, sz)
        if o.zero: return Ptr(None, 0) if isinstance(ty, tuple) else (Fraction(0) if ty in ("float", "double") else 0)
        if o.init is not None:
            v = o.init(off, ty); o.mem[off] = (v, n); return v
        s.report("uninitialised-read", "%s offset %d" % (o.name, off), ins)
        return UNINIT
    def store(s, p, ty, v, ins):
        n = sizeof(ty)
        if isinstance(p, Ptr) and p.obj is not None and getattr(p.obj, "symbolic", False):
            o = p.obj; off = p.off if is_sym(p.off) else z3.IntVal(p.off)
            if s.accesses is not None: s.accesses.append((o, off, n, True, ins, s.in_reduction))
            o.wlog.append((off, v, n)); return
        o, off = s.resolve(p, n, ins, True)
        if o.kind == "const": s.report("write-to-input", o.name, ins)
        vn = getattr(o, "vname", None)
        if vn in s.store_hooks: v = s.store_hooks[vn](s, o, v)
        o.mem[off] = (v, n)
    # ---- arithmetic helpers
    def use(s, v, ins, what="value"):
        if v is UNINIT:
            s.report("uninitialised-use", what, ins); return s.fresh_real("undef")
        return v
    def bitop(s, op, A, B, bits):
        """bitwise or / xor / and of symbolic machine words kept as mathematical integers (signed reading).  The packing idiom (x << k) | y with
        0 <= y < 2^k (decided by the solver on the current path) is addition; anything else goes through bit-vectors of the operand width."""
        if op in ("or", "xor"):
            for X, Y in ((A, B), (B, A)):
                for k in (16, 8, 24, 32, 1, 2, 4):
                    if k >= bits: continue
                    if not s.ex.feasible([z3.Not(z3.And(Y >= 0, Y < (1 << k), X % (1 << k) == 0))]): return X + Y
        f = {"or": lambda x, y: x | y, "xor": lambda x, y: x ^ y, "and": lambda x, y: x & y}[op]
        return z3.BV2Int(f(z3.Int2BV(A, bits), z3.Int2BV(B, bits)), is_signed=True)
    def ibin(s, op, a, b, bits, flags, ins):
        a = s.use(a, ins); b = s.use(b, ins)
        if is_sym(a) or is_sym(b):
            A = a if is_sym(a) else z3.IntVal(a); B = b if is_sym(b) else z3.IntVal(b)
            if op == "add": r = A + B
            elif op == "sub": r = A - B
            elif op == "mul": r = A * B
            elif op == "sdiv": r = z3.If(B > 0, z3.If(A >= 0, A / B, -((-A) / B)), z3.If(A >= 0, -(A / (-B)), (-A) / (-B)))
            elif op == "srem": r = A - B * z3.If(B > 0, z3.If(A >= 0, A / B, -((-A) / B)), z3.If(A >= 0, -(A / (-B)), (-A) / (-B)))
            elif op == "shl" and not is_sym(b): r = A * (1 << b)
            elif op == "ashr" and not is_sym(b): r = A / (1 << b)                       # floor division (z3 div with a positive divisor)
            elif op == "lshr" and not is_sym(b): r = s.uns(A, bits) / (1 << b)
            elif op == "udiv" and not is_sym(b) and b > 0: r = s.uns(A, bits) / b
            elif op == "urem" and not is_sym(b) and b > 0: r = s.uns(A, bits) % b
            elif op == "and" and not is_sym(b) and b >= 0 and (b & (b + 1)) == 0: r = s.uns(A, bits) % (b + 1)
            elif op in ("or", "xor", "and"): r = s.bitop(op, A, B, bits)
            else: raise NotImplementedError(op + " symbolic")
            lim = 1 << (bits - 1)
            if "nsw" in flags:
                if s.ex.feasible([z3.Or(r >= lim, r < -lim)]): s.report("signed-overflow", op, ins)
            elif op in ("add", "sub", "mul", "shl") and s.ex.feasible([z3.Or(r >= lim, r < -lim)]):
                r = ((r + lim) % (1 << bits)) - lim          # modular (unsigned / wrapping) arithmetic, kept in its signed reading
            return r
        if op == "add": r = a + b
        elif op == "sub": r = a - b
        elif op == "mul": r = a * b
        elif op in ("sdiv", "udiv"):
            if b == 0: s.report("div-by-zero", op, ins); raise PathEnd("div0")
            r = abs(a) // abs(b) * (1 if (a >= 0) == (b >= 0) else -1)
        elif op in ("srem", "urem"):
            if b == 0: s.report("div-by-zero", op, ins); raise PathEnd("div0")
            r = abs(a) % abs(b) * (1 if a >= 0 else -1)
        elif op == "shl": r = a << b
        elif op == "ashr": r = a >> b
        elif op == "lshr": r = (a % (1 << bits)) >> b
        elif op == "and": r = a & b
        elif op == "or": r = a | b
        elif op == "xor": r = a ^ b
        else: raise NotImplementedError(op)
        lim = 1 << (bits - 1)
        if "nsw" in flags and not (-lim <= r < lim): s.report("signed-overflow", "%s %d %d" % (op, a, b), ins)
        if bits > 1:
            r &= (1 << bits) - 1
            if r >= lim: r -= 1 << bits
        return r
    def rne(s, x): return symcore.rne(x)
    # ---- IEEE mode: a value that is a z3 FP term keeps bit-exact float semantics through fadd/fsub/fmul/fdiv/fcmp/fpext/fptrunc/floor/fptosi
    # (round to nearest even); everything else stays in the real model.  Used for kernels whose memory safety depends on rounding.
    @staticmethod
    def isfp(x): return isinstance(x, z3.FPRef)
    @staticmethod
    def tofp(x, sort):
        if isinstance(x, z3.FPRef): return x if x.sort() == sort else z3.fpFPToFP(z3.RNE(), x, sort)
        if isinstance(x, (int, Fraction)) and not isinstance(x, bool):
            f = float(x)
            if Fraction(f) != Fraction(x): raise NotImplementedError("constant %s is not a float" % x)
            v = z3.FPVal(f, z3.Float64()); return v if sort == z3.Float64() else z3.fpFPToFP(z3.RNE(), v, sort)
        raise NotImplementedError("mixing a real-model value with an IEEE value")
    def fbin(s, op, a, b, ins):
        if s.isfp(a) or s.isfp(b):
            a = s.use(a, ins); b = s.use(b, ins); sort = a.sort() if s.isfp(a) else b.sort(); A, B = s.tofp(a, sort), s.tofp(b, sort); rm = z3.RNE()
            return {"fadd": z3.fpAdd, "fsub": z3.fpSub, "fmul": z3.fpMul, "fdiv": z3.fpDiv}[op](rm, A, B)
        MAGIC = Fraction(6755399441055744)
        if isinstance(a, tuple) and a[0] == "magic":
            if op == "fsub" and b == MAGIC or op == "fadd" and b == -MAGIC: return s.rne(a[1])
            raise NotImplementedError("magic escapes")
        if op == "fadd" and (not is_sym(b)) and b == MAGIC and b is not UNINIT:
            return ("magic", s.use(a, ins))
        a = s.use(a, ins); b = s.use(b, ins)
        if not is_sym(a) and not is_sym(b):
            a, b = fr(a), fr(b)
            if op == "fadd": return a + b
            if op == "fsub": return a - b
            if op == "fmul": return a * b
            if op == "fdiv":
                if b == 0: s.report("float-div-by-zero", "", ins); return s.fresh_real("inf")
                return a / b
        A, B = to_real(a), to_real(b)
        if op == "fadd": return A + B
        if op == "fsub": return A - B
        if op == "fmul":
            if MULMODE[0] == "uf" and is_sym(a) and is_sym(b): return umul(A, B)
            return A * B
        if op == "fdiv":
            if getattr(s, "assume_fdiv_nonzero", False):
                CTX.hyp.append(B != 0); CTX.pre.append(B != 0)          # harness-declared precondition (listed in its assumptions): no feasibility query
                return A / B
            try:
                if s.ex.feasible([B == 0]): s.report("float-div-by-zero", "feasible", ins)
            except (RuntimeError, Inconclusive):
                s.report("float-div-by-zero", "undecided", ins)
            s.ex.pc.append(B != 0)
            return A / B
        raise NotImplementedError(op)
    def uns(s, x, bits):
        """unsigned reading of a value kept in its signed reading"""
        if is_sym(x): return z3.If(x < 0, x + (1 << bits), x)
        return x % (1 << bits)
    def cmp(s, pred, a, b, ins, isf, bits=32):
        a = s.use(a, ins); b = s.use(b, ins)
        if (not isf) and pred[0] == "u" and pred not in ("une", "ueq") and not isinstance(a, (Ptr, bool)) and not isinstance(b, (Ptr, bool)):
            a, b = s.uns(a, bits), s.uns(b, bits)
        if isinstance(a, Ptr) or isinstance(b, Ptr):
            same = (a.obj is b.obj) and (a.off == b.off)
            return same if pred == "eq" else not same
        ops = {"eq": lambda x, y: x == y, "ne": lambda x, y: x != y,
               "slt": lambda x, y: x < y, "sle": lambda x, y: x <= y, "sgt": lambda x, y: x > y, "sge": lambda x, y: x >= y,
               "ult": lambda x, y: x < y, "ule": lambda x, y: x <= y, "ugt": lambda x, y: x > y, "uge": lambda x, y: x >= y,
               "oeq": lambda x, y: x == y, "one": lambda x, y: x != y, "une": lambda x, y: x != y, "ueq": lambda x, y: x == y,
               "olt": lambda x, y: x < y, "ole": lambda x, y: x <= y, "ogt": lambda x, y: x > y, "oge": lambda x, y: x >= y,
               "ult_f": None}
        f = ops[pred]
        if s.isfp(a) or s.isfp(b):
            sort = a.sort() if s.isfp(a) else b.sort(); A, B = s.tofp(a, sort), s.tofp(b, sort); un = z3.Or(z3.fpIsNaN(A), z3.fpIsNaN(B))
            o = {"eq": z3.fpEQ, "ne": lambda x, y: z3.Not(z3.fpEQ(x, y)), "lt": z3.fpLT, "le": z3.fpLEQ, "gt": z3.fpGT, "ge": z3.fpGEQ}[pred[1:]](A, B)
            if pred == "one": return z3.And(z3.Not(un), o)
            if pred == "une": return z3.Or(un, o)
            return z3.And(z3.Not(un), o) if pred[0] == "o" else z3.Or(un, o)
        if is_sym(a) or is_sym(b):
            if isf: a, b = to_real(a), to_real(b)
            else:
                a = a if is_sym(a) else z3.IntVal(a); b = b if is_sym(b) else z3.IntVal(b)
            return f(a, b)
        return f(a, b)
    def truth(s, c, ins):
        c = s.use(c, ins, "branch condition")
        if isinstance(c, bool): return c
        if isinstance(c, int): return c != 0
        if z3.is_bool(c):
            c = z3.simplify(c)
            if z3.is_true(c): return True
            if z3.is_false(c): return False
            return s.ex.branch(c)
        raise TypeError(c)
    # ---- libm / libc models
    def libcall(s, name, args, ins, env):
        a = [x[1] for x in args]
        if name in ("printf", "puts", "putchar", "fflush"): return 0
        if name == "exit": raise PathEnd("exit")
        if name in ("malloc", "calloc"):
            n = a[0] * (a[1] if name == "calloc" else 1)
            if is_sym(n): raise NotImplementedError("symbolic malloc size")
            if n < 0: s.report("negative-size-alloc", str(n), ins); raise PathEnd("alloc")
            o = s.newobj(name, n, None, "heap"); o.zero = (name == "calloc"); return Ptr(o, 0)
        if name == "realloc":
            p, n = a
            o = s.newobj("realloc", n, None, "heap")
            for off, (v, sz) in p.obj.mem.items():
                if off + sz <= n: o.mem[off] = (v, sz)
            o.zero = False
            if p.obj.zero:  # carry calloc zeros explicitly
                old = p.obj
                o.init = (lambda off, ty, old=old: (0 if off < old.size else UNINIT))
            p.obj.freed = True; return Ptr(o, 0)
        if name == "free":
            if a[0].obj is not None:
                if a[0].obj.freed: s.report("double-free", a[0].obj.name, ins)
                if a[0].obj.kind != "heap": s.report("free-non-heap", a[0].obj.name, ins)
                a[0].obj.freed = True
            return None
        if name.startswith("llvm.memset") or name == "memset":
            p, v, n = a[0], a[1], a[2]
            o, off = s.resolve(p, n if n > 0 else 1, ins, True) if n > 0 else (p.obj, p.off)
            if v != 0: raise NotImplementedError("memset nonzero")
            for k in list(o.mem):
                if off <= k < off + n: del o.mem[k]
            if off == 0 and n == o.size: o.zero = True; o.init = None
            else:
                for k in range(off, off + n, 4): o.mem[k] = (0, 4)
            return p
        if name in ("sqrt", "llvm.sqrt.f64", "sqrtf"):
            x = s.use(a[0], ins)
            if not is_sym(x):
                x = Fraction(x)
                if x < 0: s.report("sqrt-of-negative", str(x), ins); return s.fresh_real("nan")
                n, d = math.isqrt(x.numerator), math.isqrt(x.denominator)
                if n * n == x.numerator and d * d == x.denominator: return Fraction(n, d)
            return symcore.sqrt_(x)
        if name in ("sin", "cos"):
            c, sn = symcore.trig(s.use(a[0], ins)); return c if name == "cos" else sn
        if name == "atan2":
            return symcore.ATAN2(to_real(s.use(a[0], ins)), to_real(s.use(a[1], ins)))
        if name in ("llvm.fabs.f64", "fabs", "llvm.fabs.f32", "fabsf") and s.isfp(a[0]): return z3.fpAbs(s.use(a[0], ins))
        if name in ("llvm.floor.f64", "floor", "floorf", "llvm.floor.f32") and s.isfp(a[0]): return z3.fpRoundToIntegral(z3.RTN(), s.use(a[0], ins))
        if name in ("llvm.fabs.f64", "fabs", "llvm.fabs.f32"):
            x = s.use(a[0], ins)
            return abs(x) if not is_sym(x) else z3.If(x >= 0, x, -x)
        if name in ("llvm.floor.f64", "floor", "floorf", "llvm.floor.f32"):
            x = s.use(a[0], ins)
            return Fraction(math.floor(x)) if not is_sym(x) else z3.ToReal(z3.ToInt(x))
        if name.startswith("llvm.fmuladd"):
            return s.fbin("fadd", s.fbin("fmul", a[0], a[1], ins), a[2], ins)
        if name.startswith("__kmpc_for_static_init_4"):
            loc, gtid, sched, plast, plb, pub, pstride, incr, chunk = a
            if s.omp_mode == "seq":      # one thread owns the whole iteration space
                s.store(pstride, "i32", 1 << 30, ins); s.store(plast, "i32", 1, ins); return None
            if s.omp_mode == "team":     # static schedule without chunk: thread k of nt gets the k-th block of ceil(n/nt) iterations
                lb = s.load(plb, "i32", ins); ub = s.load(pub, "i32", ins); nt, k = s.num_threads, s.cur_tid
                if is_sym(lb) or is_sym(ub):      # symbolic trip count: thread 0 takes everything (every iteration is still executed by a team member)
                    if k: s.store(plb, "i32", 1, ins); s.store(pub, "i32", 0, ins)
                    s.store(pstride, "i32", 1 << 30, ins); s.store(plast, "i32", int(k == 0), ins); return None
                n = ub - lb + 1; blk = -(-n // nt) if n > 0 else 0
                mylb = lb + k * blk; myub = min(ub, mylb + blk - 1)
                s.store(plb, "i32", mylb, ins); s.store(pub, "i32", myub, ins)
                s.store(pstride, "i32", 1 << 30, ins); s.store(plast, "i32", int(myub == ub and mylb <= myub), ins); return None
            # footprint mode: the abstract iteration lies inside the iteration space the outlined code announced (lb .. ub as stored before the call)
            lb0 = s.load(plb, "i32", ins); ub0 = s.load(pub, "i32", ins); k = s.omp_iter
            inside = z3.And(k >= (lb0 if is_sym(lb0) else z3.IntVal(lb0)), k <= (ub0 if is_sym(ub0) else z3.IntVal(ub0)))
            if not s.ex.feasible([inside]): raise PathEnd("abstract iteration outside the iteration space")
            s.ex.assume(inside)
            s.store(plb, "i32", s.omp_iter, ins); s.store(pub, "i32", s.omp_iter, ins)
            s.store(pstride, "i32", 1 << 30, ins); s.store(plast, "i32", 0, ins); return None
        if name == "__kmpc_for_static_fini": return None
        if name == "__kmpc_barrier" and s.omp_mode == "team": raise TeamBarrier("barrier inside a parallel region: the run-to-completion team model does not apply")
        if name in ("__kmpc_barrier", "__kmpc_flush"): return None      # sequentially consistent memory model: a flush is a no-op
        if name == "__kmpc_reduce_nowait": s.in_reduction = True; return 1
        if name == "__kmpc_end_reduce_nowait": s.in_reduction = False; return None
        if name == "__kmpc_global_thread_num": return 0
        if name == "__kmpc_push_num_threads": return None
        if name == "__kmpc_fork_call":
            # args: ident, argc, microtask (bitcast constexpr), captured pointers...
            m = re.search(r"@([\w.$]+)", a[2][1] if isinstance(a[2], tuple) else str(a[2]))
            fn = m.group(1); cap = a[3:]
            s.fork_count = getattr(s, "fork_count", 0) + 1
            def cell(v):
                o = s.newobj("tid", 4, None, "priv"); o.mem[0] = (v, 4); return Ptr(o, 0)
            if s.omp_mode == "threads" and s.fork_count == getattr(s, "fork_target", 1):
                s.thread_handler(s, fn, cap, cell); return None
            if s.omp_mode == "team":
                # memory-safety view of a team of `team_size` threads: each member runs the outlined body to completion in turn with its own
                # omp_get_thread_num(); no interleaving (races are the business of C07/C11/C13), regions with barriers are refused
                nt = s.team_size; old = (s.cur_tid, s.num_threads)
                try:
                    for k in range(nt):
                        s.cur_tid, s.num_threads = k, nt; s._disp = 0
                        s.call(fn, [cell(k), cell(k)] + list(cap))
                finally: s.cur_tid, s.num_threads = old
                return None
            if s.omp_mode != "foot" or s.fork_count != getattr(s, "fork_target", 1):
                old = (s.omp_mode, s.cur_tid, s.num_threads); s.omp_mode = "seq"; s.cur_tid = 0; s.num_threads = 1
                try: s.call(fn, [cell(0), cell(0)] + list(cap))
                finally: s.omp_mode, s.cur_tid, s.num_threads = old
                return None
            # footprint mode: two abstract iterations kA != kB of the same loop, each from the same pre-state
            s.foot = []; s.foot_truncated = False
            for tag, k in zip("AB", s.omp_iters):
                s.omp_iter = k; s.accesses = []; s.in_reduction = False; s._disp = 0
                s.foot_start = s.steps; st0 = list(s.stack)
                try: s.call(fn, [cell(0), cell(0)] + list(cap))
                except IterTruncated:
                    # bounded unwinding of one abstract iteration: the accesses seen so far are real accesses of that iteration (a conflict among them is a
                    # conflict); the footprint is incomplete, so "no conflict" is then inconclusive
                    s.foot_truncated = True; s.stack[:] = st0
                finally: s.foot_start = None
                s.foot.append(list(s.accesses))
            s.accesses = None
            raise PathEnd("footprint")
        if name == "__kmpc_dispatch_init_4": s._disp = 0; s._disp_range = (a[3], a[4], a[5]); return None
        if name == "__kmpc_dispatch_next_4":
            loc, gtid, plast, plb, pub, pst = a
            if s.omp_mode != "foot":       # one thread takes the whole range in a single chunk
                if s._disp or (s.omp_mode == "team" and s.cur_tid != 0): return 0
                s._disp = 1; lb, ub, st = s._disp_range
                s.store(plb, "i32", lb, ins); s.store(pub, "i32", ub, ins); s.store(pst, "i32", st, ins); s.store(plast, "i32", 1, ins); return 1
            if s._disp: return 0
            s._disp = 1
            s.store(plb, "i32", s.omp_iter, ins); s.store(pub, "i32", s.omp_iter, ins); s.store(pst, "i32", 1, ins); s.store(plast, "i32", 0, ins); return 1
        if name == "omp_get_max_threads": return getattr(s, "max_threads", s.num_threads)
        if name == "omp_get_thread_num": return s.cur_tid
        if name == "omp_get_num_threads": return s.num_threads
        if name in ("llvm.dbg.declare", "llvm.dbg.value", "llvm.dbg.label", "llvm.lifetime.start.p0i8", "llvm.lifetime.end.p0i8", "my_get_time"): return None
        raise NotImplementedError("call " + name)
    # ---- execution
    def call(s, fname, args, depth=0):
        if fname in s.call_replace: return s.call_replace[fname](s, args)      # a proved specification stands in for the body
        f = s.mod.funcs[fname]
        if fname in s.call_hooks: s.call_hooks[fname](s, args)
        env = {}
        for (t, nm), v in zip(f.params, args): env[nm] = v
        blk = f.entry; prev = None
        frame_objs = []; frame = {}; s.stack.append(frame)
        st = s.stack
        try: return s._run(f, fname, env, blk, prev, frame_objs, frame, depth)
        finally:
            if st and st[-1] is frame: st.pop()
    def _run(s, f, fname, env, blk, prev, frame_objs, frame, depth):
        while True:
            for ins in f.blocks[blk]:
                s.steps += 1
                if s.steps > s.max_steps: raise RuntimeError("unwinding bound exceeded")
                if s.foot_start is not None and s.steps - s.foot_start > s.foot_limit: raise IterTruncated()
                op, t = ins.op, ins.text
                if op == "alloca":
                    m = re.match(r"alloca (.*)", t); ty = parse_type(m.group(1))[0]
                    nm = s.mod.varname(f.dbgvars.get(ins.res, "")) or ins.res
                    o = s.newobj(fname + "." + nm, sizeof(ty), None, "stack"); o.vname = nm; frame_objs.append(o); frame[nm] = o
                    env[ins.res] = Ptr(o, 0)
                elif op == "load":
                    m = re.match(r"load (?:volatile )?(.*)", t); ty, rest = parse_type(m.group(1))
                    _, p = s.typed(env, rest.lstrip(", "))
                    env[ins.res] = s.load(p, ty, ins)
                elif op == "store":
                    m = re.match(r"store (?:volatile )?(.*)", t)
                    parts = split_top(m.group(1))
                    ty, v = s.typed(env, parts[0]); _, p = s.typed(env, parts[1])
                    s.store(p, ty, v, ins)
                elif op == "getelementptr":
                    m = re.match(r"getelementptr (?:inbounds )?(.*)", t); parts = split_top(m.group(1))
                    ty = parse_type(parts[0])[0]; _, p = s.typed(env, parts[1])
                    off = p.off; cur = ty
                    for k, ix in enumerate(parts[2:]):
                        _, iv = s.typed(env, ix); iv = s.use(iv, ins, "index")
                        if k == 0: step = sizeof(cur)
                        else:
                            cur = cur[2]; step = sizeof(cur)
                        off = off + iv * step
                    env[ins.res] = Ptr(p.obj, off)
                elif op in ("add", "sub", "mul", "sdiv", "udiv", "srem", "urem", "shl", "ashr", "lshr", "and", "or", "xor"):
                    m = re.match(r"\w+ ((?:nsw |nuw |exact )*)(.*)", t); parts = split_top(m.group(2))
                    ty, a = s.typed(env, parts[0]); b = s.val(env, ty, parts[1])
                    if ty == "i1" and op in ("and", "or", "xor"):
                        a, b = s.use(a, ins), s.use(b, ins)
                        if is_sym(a) or is_sym(b):
                            A = a if is_sym(a) else z3.BoolVal(a); B = b if is_sym(b) else z3.BoolVal(b)
                            env[ins.res] = {"and": z3.And, "or": z3.Or, "xor": z3.Xor}[op](A, B)
                        else: env[ins.res] = {"and": a and b, "or": a or b, "xor": a != b}[op]
                    else:
                        env[ins.res] = s.ibin(op, a, b, int(ty[1:]), m.group(1), ins)
                elif op in ("fadd", "fsub", "fmul", "fdiv"):
                    m = re.match(r"\w+ (?:(?:fast|nnan|ninf|nsz|arcp|contract|afn|reassoc) )*(.*)", t); parts = split_top(m.group(1))
                    ty, a = s.typed(env, parts[0]); b = s.val(env, ty, parts[1])
                    env[ins.res] = s.fbin(op, a, b, ins)
                elif op == "fneg":
                    ty, a = s.typed(env, t[5:]); a = s.use(a, ins); env[ins.res] = z3.fpNeg(a) if s.isfp(a) else -a
                elif op in ("icmp", "fcmp"):
                    m = re.match(r"[if]cmp (\w+) (.*)", t); parts = split_top(m.group(2))
                    ty, a = s.typed(env, parts[0]); b = s.val(env, ty, parts[1])
                    if op == "icmp" and m.group(1)[0] == "u" and not isinstance(a, Ptr):
                        # unsigned compare on non-negative values only (checked)
                        pass
                    env[ins.res] = s.cmp(m.group(1), a, b, ins, op == "fcmp", int(ty[1:]) if isinstance(ty, str) and ty[0] == "i" else 64)
                elif op in ("sext", "zext", "trunc", "bitcast", "fpext", "fptrunc", "sitofp", "uitofp", "fptosi", "fptoui", "ptrtoint", "inttoptr"):
                    m = re.match(r"\w+ (.*) to (.*)", t); ty, a = s.typed(env, m.group(1)); to = parse_type(m.group(2))[0]
                    a = s.use(a, ins) if op != "bitcast" else a
                    if op in ("fpext", "fptrunc") and s.isfp(a): r = z3.fpFPToFP(z3.RNE(), a, z3.Float64() if to == "double" else z3.Float32())
                    elif op in ("fptosi",) and s.isfp(a):
                        bits = int(to[1:]); srt = a.sort()
                        inr = z3.And(z3.Not(z3.fpIsNaN(a)), z3.fpLT(a, s.tofp(Fraction(1 << (bits - 1)), srt)), z3.fpGT(a, s.tofp(Fraction(-(1 << (bits - 1)) - (1 << 8 if srt == z3.Float32() and bits == 32 else 1)), srt)))
                        if s.ex.feasible([z3.Not(inr)]):
                            s.report("float-to-int-out-of-range", "fptosi to i%d (IEEE mode)" % bits, ins); s.ex.pc.append(inr)
                        r = z3.BV2Int(z3.fpToSBV(z3.RTZ(), a, z3.BitVecSort(bits)), is_signed=True)
                    elif op in ("sext", "bitcast", "fpext", "fptrunc"): r = a
                    elif op == "zext":
                        if isinstance(a, bool): r = int(a)
                        elif z3.is_bool(a) if is_sym(a) else False: r = z3.If(a, 1, 0)
                        elif is_sym(a):
                            # values are kept in their signed reading; zero extension re-reads the bit pattern as unsigned
                            sb = int(ty[1:])
                            r = z3.If(a < 0, a + (1 << sb), a) if s.ex.feasible([a < 0]) else a
                        else: r = a % (1 << int(ty[1:]))
                    elif op == "trunc":
                        bits = int(to[1:])
                        if is_sym(a):
                            # wrap-around of a symbolic value: only modelled (with mod) when the value can leave the target range
                            lim = 1 << (bits - 1) if bits > 1 else 1
                            if bits == 1: r = (a % 2) != 0
                            elif s.ex.feasible([z3.Or(a >= lim, a < -lim)]): r = ((a + lim) % (1 << bits)) - lim
                            else: r = a
                        else:
                            r = a & ((1 << bits) - 1)
                            if bits > 1 and r >= 1 << (bits - 1): r -= 1 << bits
                            if bits == 1: r = bool(r)
                    elif op in ("sitofp", "uitofp"):
                        if op == "uitofp": a = s.uns(a, int(ty[1:]))
                        r = Fraction(a) if not is_sym(a) else z3.ToReal(a)
                    elif op in ("fptosi", "fptoui"):
                        bits = int(to[1:]); lo_, hi_ = (-(1 << (bits - 1)), (1 << (bits - 1))) if op == "fptosi" else (0, 1 << bits)
                        if is_sym(a):
                            r = z3.If(a >= 0, z3.ToInt(a), -z3.ToInt(-a))
                            if s.ex.feasible([z3.Or(r < lo_, r >= hi_)]):
                                s.report("float-to-int-out-of-range", "%s to i%d" % (op, bits), ins); s.ex.pc.append(z3.And(r >= lo_, r < hi_))
                        else:
                            r = math.trunc(a)
                            if not lo_ <= r < hi_: s.report("float-to-int-out-of-range", "%s %s to i%d" % (op, float(a), bits), ins); raise PathEnd("fp-range")
                        if op == "fptoui" and not is_sym(r) and r >= 1 << (bits - 1): r -= 1 << bits
                        elif op == "fptoui" and is_sym(r): r = z3.If(r >= (1 << (bits - 1)), r - (1 << bits), r)
                    else: raise NotImplementedError(op)
                    env[ins.res] = r
                elif op == "select":
                    parts = split_top(t[7:]); _, c = s.typed(env, parts[0]); _, a = s.typed(env, parts[1]); _, b = s.typed(env, parts[2])
                    c = s.use(c, ins)
                    if is_sym(c):
                        if is_sym(a) or is_sym(b) or not isinstance(a, Ptr):
                            A = a if is_sym(a) else (z3.RealVal(a) if isinstance(a, Fraction) else z3.IntVal(a))
                            B = b if is_sym(b) else (z3.RealVal(b) if isinstance(b, Fraction) else z3.IntVal(b))
                            env[ins.res] = z3.If(c, A, B)
                        else: env[ins.res] = a if s.truth(c, ins) else b
                    else: env[ins.res] = a if c else b
                elif op == "phi":
                    ty, rest = parse_type(t[4:])
                    for mm in re.finditer(r"\[ ([^,]+), %([\w.$-]+) \]", rest):
                        if mm.group(2) == prev or (prev == "entry" and mm.group(2) == str(len(f.params))):
                            env[ins.res] = s.val(env, ty, mm.group(1)); break
                    else: raise RuntimeError("phi: no incoming for " + str(prev))
                elif op == "br":
                    m = re.match(r"br label %([\w.$-]+)", t)
                    if m: prev, blk = blk, m.group(1)
                    else:
                        m = re.match(r"br i1 (.+), label %([\w.$-]+), label %([\w.$-]+)", t)
                        c = s.val(env, "i1", m.group(1))
                        prev, blk = blk, (m.group(2) if s.truth(c, ins) else m.group(3))
                    break
                elif op == "ret":
                    for o in frame_objs: o.freed = "stack"
                    s.lastframe = {getattr(o, "vname", o.name): o for o in frame_objs}; s.frames[fname] = s.lastframe
                    if t.strip() == "ret void": return None
                    return s.typed(env, t[4:])[1]
                elif op == "call":
                    m = re.match(r"call (.*?)@([\w.$]+)\((.*)\)", t)
                    name = m.group(2); args = []
                    for a in split_top(m.group(3)):
                        if a.startswith("metadata"): args.append(("metadata", None)); continue
                        args.append(s.typed(env, a))
                    if name in s.mod.funcs: r = s.call(name, [a[1] for a in args], depth + 1)
                    else: r = s.libcall(name, args, ins, env)
                    if ins.res: env[ins.res] = r
                elif op == "unreachable":
                    raise PathEnd("unreachable")
                elif op == "switch":
                    m = re.match(r"switch (\w+) (\S+), label %([\w.$-]+) \[(.*)\]", t)
                    v = s.use(s.val(env, m.group(1), m.group(2)), ins); tgt = m.group(3)
                    for mm in re.finditer(r"\w+ (-?\d+), label %([\w.$-]+)", m.group(4)):
                        if (not is_sym(v)) and v == int(mm.group(1)): tgt = mm.group(2)
                    prev, blk = blk, tgt; break
                else:
                    raise NotImplementedError(op + " :: " + t)
            else:
                raise RuntimeError("fell off block " + blk)

def explore(mod, setup, timeout_ms=20000, maxpaths=100000, prefixes=None, interp=None):
    """setup(interp) -> (fname, args, post). yields (interp, ret, status, post) per path"""
    cell = {}
    def run():
        it = (interp or Interp)(mod); cell["it"] = it
        fname, args, post = setup(it); cell["post"] = post
        return it.call(fname, args)
    for ret, pc, hyp, taken, status in symcore.explore(run, maxpaths=maxpaths, prefixes=prefixes, timeout_ms=timeout_ms):
        yield cell["it"], ret, status, cell["post"]

# ----------------------------------------------------------------------------- harness helpers
def mkobj(it, name, vals, ety, kind="inout"):
    """object initialised from a list of python/z3 values"""
    n = sizeof(ety); o = it.newobj(name, n * len(vals), None, kind)
    for i, v in enumerate(vals): o.mem[n * i] = (v, n)
    return o
def outobj(it, name, count, ety, kind="out"):
    """uninitialised output object of count elements"""
    return it.newobj(name, sizeof(ety) * count, None, kind)
def symobj(it, name, count, ety, kind="const", lo=None, hi=None, real=None):
    """lazily symbolic array: element k is the z3 constant <name>_<k> (Real for float types, Int otherwise)"""
    n = sizeof(ety); isf = ety in ("float", "double") if real is None else real
    cache = {}
    def get(k):
        if k not in cache:
            cache[k] = z3.Real("%s_%d" % (name, k)) if isf else z3.Int("%s_%d" % (name, k))
            if lo is not None: CTX.hyp.append(cache[k] >= lo)
            if hi is not None: CTX.hyp.append(cache[k] <= hi)
        return cache[k]
    o = it.newobj(name, n * count, lambda off, ty: get(off // n), kind); o.get = get; o.esize = n
    return o
def rd(o, k, esize=None):
    """read element k of an object after the run (None when never written)"""
    n = esize or getattr(o, "esize", None) or 8
    if n * k in o.mem: return o.mem[n * k][0]
    if o.zero: return 0
    if o.init is not None: return o.init(n * k, None)
    return None
def snapshot(o, count, esize=8):
    return [rd(o, k, esize) for k in range(count)]

def symbolic_obj(it, name, kind="shared"):
    """unbounded array with symbolic (UF) content: loads are rd_<name>(offset) overridden by the write log"""
    o = it.newobj(name, 1 << 40, None, kind); o.symbolic = True; o.wlog = []; return o

def footprint(mod, fname, setup, timeout_ms=20000, interp=None, iter_steps=None):
    """Data-race / loop-carried-dependence query for the `#pragma omp parallel for` inside fname (IR built with -fopenmp).
    setup(it) -> args (arrays should be symbolic_obj, sizes symbolic Ints; it.omp_iters = (kA, kB) with hypotheses).
    Returns (npaths, nqueries, conflicts) where a conflict is a pair of accesses of two DIFFERENT iterations to overlapping
    bytes of one object with at least one write (reduction epilogues exempt).  No bound on n or on the thread count."""
    import common
    cell = {}
    def run():
        it = (interp or Interp)(mod); it.omp_mode = "foot"; cell["it"] = it
        if iter_steps: it.foot_limit = iter_steps
        args = setup(it)
        it.call(fname, args)
    npaths = nq = 0; conflicts = []; shared = set(); footprint.truncated = 0
    def paths():
        try:
            for x in symcore.explore(run, timeout_ms=timeout_ms, budget_s=float(os.environ.get("VERIF_FOOT_BUDGET", "300"))): yield x
        except Inconclusive:
            if not conflicts: raise          # nothing found in the explored part: the query is undecided
            footprint.truncated += 1         # a conflict already found on an explored path stays a conflict (it is replayed on the real build by the caller)
    for res, pc, hyp, taken, status in paths():
        it = cell["it"]
        if status != "end:footprint":
            if status == "ok": conflicts.append(("no parallel region reached", None, None)); 
            continue
        npaths += 1
        if it.foot_truncated: footprint.truncated += 1
        kA, kB = it.omp_iters
        A, B = it.foot
        for (oa, offa, na, wa, ia, ra) in A:
            for (ob, offb, nb, wb, ib, rb) in B:
                if oa is not ob or not (wa or wb) or (ra and rb): continue
                if oa.kind in ("priv",): continue
                oa_ = offa if is_sym(offa) else z3.IntVal(offa); ob_ = offb if is_sym(offb) else z3.IntVal(offb)
                r, m = common.solve(list(hyp) + list(pc) + [kA != kB, oa_ < ob_ + nb, ob_ < oa_ + na], timeout_ms, want_model=True); nq += 1
                if r != "unsat":
                    conflicts.append((oa.name.split("#")[0], (mod.srcline(ia.line), "write" if wa else "read"), (mod.srcline(ib.line), "write" if wb else "read"), r,
                                      None if m is None else (str(m.eval(kA, model_completion=True)), str(m.eval(kB, model_completion=True)))))
        for (oa, offa, na, wa, ia, ra) in A: shared.add((oa.name.split("#")[0], "w" if wa else "r", mod.srcline(ia.line)))
    return npaths, nq, conflicts, sorted(shared, key=str)
