"""
pysym: run the *unmodified* Python / numba-py_func code of /repo on numpy object arrays whose elements are `Sym`
(thin wrappers of z3 Real/Int terms).  numpy's object-dtype ufunc loops call methods by name (cos, sin, sqrt, arctan2,
radians, degrees ...), so the real numpy code paths run without source change.  Branching on a SymBool forks the path
through symcore.EX.
"""
import z3, fractions, types, math as _math, builtins
import numpy as _np
from fractions import Fraction
import symcore
from symcore import CTX, EX, PIq, PI, ATAN2, ASIN, ACOS, to_real

def tz(x):
    """python / numpy / Sym scalar -> z3 term"""
    if isinstance(x, Sym): return x.t
    if isinstance(x, SymBool): return z3.If(x.t, z3.RealVal(1), z3.RealVal(0))
    if isinstance(x, (bool, _np.bool_)): return z3.RealVal(int(x))
    if isinstance(x, (int, _np.integer)): return z3.RealVal(int(x))
    if isinstance(x, Fraction): return z3.RealVal(x)
    if isinstance(x, (float, _np.floating)):
        xf = float(x)
        if xf != xf or xf in (float("inf"), float("-inf")): raise TypeError("non-finite float in symbolic context")
        f = Fraction(xf)
        # floats that are the double of (a rational multiple of) pi are mapped to the same multiple of PIq
        for k, v in _PI_FLOATS.items():
            if xf == k: return z3.RealVal(v)
        return z3.RealVal(f)
    if isinstance(x, z3.ExprRef): return to_real(x)
    raise TypeError(type(x))

_PI_FLOATS = {_math.pi: PIq, _math.pi / 180.0: PIq / 180, 180.0 / _math.pi: Fraction(180) / PIq, _math.pi / 2: PIq / 2,
              2 * _math.pi: 2 * PIq, -_math.pi: -PIq, _math.pi / 360.0: PIq / 360}

MULMODE = ["nra"]     # "uf": products of two symbolic values become the uninterpreted commutative umul (symcore)

class SymBool:
    def __init__(s, t): s.t = t
    def __bool__(s): return EX.branch(s.t)
    def __and__(s, o): return SymBool(z3.And(s.t, _tb(o)))
    __rand__ = __and__
    def __or__(s, o): return SymBool(z3.Or(s.t, _tb(o)))
    __ror__ = __or__
    def __invert__(s): return SymBool(z3.Not(s.t))
    def __xor__(s, o): return SymBool(z3.Xor(s.t, _tb(o)))
    def logical_not(s): return SymBool(z3.Not(s.t))
    # arithmetic on flags (msk.sum() > 0, norm += msk): 0/1 valued
    def __add__(s, o): return Sym(tz(s)) + o
    __radd__ = __add__
    def __mul__(s, o): return Sym(tz(s)) * o
    __rmul__ = __mul__
    def __gt__(s, o): return Sym(tz(s)) > o
    def __ge__(s, o): return Sym(tz(s)) >= o
    def __lt__(s, o): return Sym(tz(s)) < o
    def __le__(s, o): return Sym(tz(s)) <= o
    def __repr__(s): return "SymBool(%s)" % s.t
def _tb(o):
    if isinstance(o, SymBool): return o.t
    if isinstance(o, (bool, _np.bool_)): return z3.BoolVal(bool(o))
    raise TypeError(type(o))

class Sym:
    __slots__ = ("t",)
    def __init__(s, t):
        s.t = z3.simplify(t) if isinstance(t, z3.ExprRef) else tz(t)
        if s.t.sort() == z3.IntSort(): s.t = z3.ToReal(s.t)
    def _b(s, o, f):
        try: return Sym(f(s.t, tz(o)))
        except TypeError: return NotImplemented
    def __add__(s, o): return s._b(o, lambda a, b: a + b)
    __radd__ = __add__
    def __sub__(s, o): return s._b(o, lambda a, b: a - b)
    def __rsub__(s, o): return s._b(o, lambda a, b: b - a)
    def __mul__(s, o):
        if MULMODE[0] == "uf" and isinstance(o, Sym): return Sym(symcore.umul(s.t, o.t))
        return s._b(o, lambda a, b: a * b)
    __rmul__ = __mul__
    def __truediv__(s, o):
        return s._b(o, lambda a, b: a / b)
    def __rtruediv__(s, o): return s._b(o, lambda a, b: b / a)
    def __pow__(s, o):
        if isinstance(o, (int, _np.integer)) and 0 <= int(o) <= 8:
            r = z3.RealVal(1)
            for _ in range(int(o)): r = r * s.t
            return Sym(r)
        if isinstance(o, (int, _np.integer)) and -8 <= int(o) < 0:
            return 1 / (s ** (-int(o)))
        if isinstance(o, float) and o == 0.5: return s.sqrt()
        if isinstance(o, float) and o == int(o): return s ** int(o)
        raise TypeError("unsupported symbolic power %r" % (o,))
    def __floordiv__(s, o):
        if isinstance(o, (int, _np.integer)) and int(o) > 0: return Sym(z3.ToReal(z3.ToInt(s.t / int(o))))
        raise TypeError("symbolic // only by a positive constant")
    def __neg__(s): return Sym(-s.t)
    def __pos__(s): return s
    def __abs__(s): return Sym(z3.If(s.t >= 0, s.t, -s.t))
    def __float__(s): raise TypeError("symbolic value forced to float")
    def __int__(s): raise TypeError("symbolic value forced to int")
    def __index__(s): raise TypeError("symbolic value used as index")
    __hash__ = None
    def __bool__(s): return EX.branch(s.t != 0)
    def _c(s, o, f):
        try: return SymBool(f(s.t, tz(o)))
        except TypeError: return NotImplemented
    def __eq__(s, o): return s._c(o, lambda a, b: a == b)
    def __ne__(s, o): return s._c(o, lambda a, b: a != b)
    def __lt__(s, o): return s._c(o, lambda a, b: a < b)
    def __le__(s, o): return s._c(o, lambda a, b: a <= b)
    def __gt__(s, o): return s._c(o, lambda a, b: a > b)
    def __ge__(s, o): return s._c(o, lambda a, b: a >= b)
    # ---- ufunc-by-name hooks used by numpy for object arrays
    def _trig(s): return symcore.trig(s.t)
    def cos(s): return Sym(s._trig()[0])
    def sin(s): return Sym(s._trig()[1])
    def tan(s):
        c, sn = s._trig(); return Sym(sn / c)
    def radians(s): return Sym(s.t * PI / 180)
    deg2rad = radians
    def degrees(s): return Sym(s.t * 180 / PI)
    rad2deg = degrees
    def sqrt(s): return Sym(symcore.sqrt_(s.t))
    def arctan2(s, o): return Sym(ATAN2(s.t, tz(o)))
    def arcsin(s):
        if symcore.ASIN_TOTAL[0] and not any(q.eq(s.t) for _, q in CTX.domain): CTX.domain.append(("asin", s.t))     # domain as an obligation of the caller
        return Sym(ASIN(s.t))
    def arccos(s):
        if symcore.ASIN_TOTAL[0] and not any(q.eq(s.t) for _, q in CTX.domain): CTX.domain.append(("acos", s.t))
        return Sym(ACOS(s.t))
    def conjugate(s): return s
    def floor(s): return Sym(z3.ToReal(z3.ToInt(s.t)))
    def rint(s): return Sym(symcore.rne(s.t))
    def fabs(s): return abs(s)
    absolute = __abs__
    def isnan(s): return False
    def isfinite(s): return True
    def __repr__(s): return "Sym(%s)" % s.t
    def __round__(s, n=None): return Sym(symcore.rne(s.t))

def var(n): return Sym(z3.Real(n))
def ivar(n):
    """integer-valued symbolic (kept as ToReal(Int))"""
    return Sym(z3.ToReal(z3.Int(n)))
def vec(name, n): return _np.array([var("%s%d" % (name, i)) for i in range(n)], dtype=object)
def mat(name, r=3, c=3): return _np.array([[var("%s%d%d" % (name, i, j)) for j in range(c)] for i in range(r)], dtype=object)
def is_symbolic(x): return isinstance(x, (Sym, SymBool))
def T(x):
    """to z3 term"""
    return tz(x)
def terms(a): return [tz(x) for x in _np.asarray(a, dtype=object).ravel()]

def ite(c, a, b):
    if isinstance(c, SymBool):
        if isinstance(a, (SymBool, bool, _np.bool_)) and isinstance(b, (SymBool, bool, _np.bool_)):
            return SymBool(z3.If(c.t, _tb(a), _tb(b)))
        return Sym(z3.If(c.t, tz(a), tz(b)))
    return a if c else b

# --------------------------------------------------------------------------------------------- numpy proxy
def _has_sym(x):
    if isinstance(x, (Sym, SymBool)): return True
    if isinstance(x, _np.ndarray): return x.dtype == object
    if isinstance(x, (list, tuple)): return any(_has_sym(y) for y in x)
    return False

class _Linalg:
    def __getattr__(s, n): return getattr(_np.linalg, n)
    def inv(s, m):
        m = _np.asarray(m)
        if m.dtype != object: return _np.linalg.inv(m)
        return inv3(m)
    def det(s, m):
        m = _np.asarray(m)
        if m.dtype != object: return _np.linalg.det(m)
        return det3(m)
    def norm(s, v, axis=None):
        v = _np.asarray(v)
        if v.dtype != object: return _np.linalg.norm(v, axis=axis)
        return _np.sqrt((v * v).sum(axis=axis))

def det3(m):
    return (m[0, 0] * (m[1, 1] * m[2, 2] - m[1, 2] * m[2, 1]) - m[0, 1] * (m[1, 0] * m[2, 2] - m[1, 2] * m[2, 0])
            + m[0, 2] * (m[1, 0] * m[2, 1] - m[1, 1] * m[2, 0]))
def adj3(m):
    a = _np.empty((3, 3), dtype=object)
    for i in range(3):
        for j in range(3):
            i1, i2 = (i + 1) % 3, (i + 2) % 3; j1, j2 = (j + 1) % 3, (j + 2) % 3
            a[j, i] = m[i1, j1] * m[i2, j2] - m[i1, j2] * m[i2, j1]
    return a
def inv3(m, name=None):
    """3x3 inverse as adjugate/det; records the precondition det != 0"""
    d = det3(m)
    if isinstance(d, Sym):
        CTX.hyp.append(d.t != 0); CTX.pre.append(d.t != 0)
    return adj3(m) / d

class _F64:
    """stand-in for np.float64 inside patched modules: usable both as a constructor and as a dtype marker"""
    def __new__(cls, x=0.0): return x if _has_sym(x) else _np.float64(x)
def _isfloat(dtype): return dtype in (float, _np.float64, "d", None, _np.float32, _F64)
def _np_dtype(dtype): return _np.float64 if dtype is _F64 else dtype

class SymArray(_np.ndarray):
    """object array whose .astype(int) keeps the (integer-valued) symbolic elements"""
    def astype(self, dtype, *a, **k):
        if dtype in (int, float, _np.float64, _np.int64, _np.int32, "i", _np.intp) and self.dtype == object and any(isinstance(v, Sym) for v in self.ravel()):
            return self
        return _np.asarray(self).astype(dtype, *a, **k)
    def _cmp(self, o, op):
        a, b = _np.broadcast_arrays(_np.asarray(self, dtype=object), _np.asarray(o, dtype=object))
        out = _np.empty(a.shape, dtype=object)
        for idx in _np.ndindex(a.shape): out[idx] = op(a[idx], b[idx])
        return out
    def __eq__(self, o): return self._cmp(o, lambda x, y: x == y)
    def __ne__(self, o): return self._cmp(o, lambda x, y: x != y)
    def __lt__(self, o): return self._cmp(o, lambda x, y: x < y)
    def __le__(self, o): return self._cmp(o, lambda x, y: x <= y)
    def __gt__(self, o): return self._cmp(o, lambda x, y: x > y)
    def __ge__(self, o): return self._cmp(o, lambda x, y: x >= y)
    __hash__ = None
class MaskIdxArray(_np.ndarray):
    """np.arange(n)[mask] with a mask of SymBool (object array): every mask element is decided by a solver fork, then numpy indexes as usual"""
    def __getitem__(self, key):
        if isinstance(key, _np.ndarray) and key.dtype == object and key.shape == self.shape and all(isinstance(v, (SymBool, bool, _np.bool_)) for v in key.ravel()):
            key = _np.array([bool(v) for v in key.ravel()], dtype=bool).reshape(key.shape)
        r = _np.ndarray.__getitem__(self, key)
        return _np.asarray(r) if isinstance(r, _np.ndarray) else r
def _elementwise(x, f):
    x = _np.asarray(x, dtype=object); out = _np.empty(x.shape, dtype=object)
    for idx in _np.ndindex(x.shape): out[idx] = f(x[idx])
    return out.view(SymArray)

class NPProxy:
    """numpy stand-in injected into a target module: float constructors give object arrays when fed symbolic data"""
    linalg = _Linalg()
    def __getattr__(self, n): return getattr(_np, n)
    def zeros(self, shape, dtype=None, **k):
        if self.INTS_AS_OBJECTS and dtype in (int, _np.int32, _np.int64, _np.intp):
            a = _np.empty(shape, dtype=object); a[...] = 0; return a
        if _isfloat(dtype):
            a = _np.empty(shape, dtype=object); a[...] = 0.0; return a
        return _np.zeros(shape, dtype, **k)
    def empty(self, shape, dtype=None, **k): return self.zeros(shape, dtype)
    def ones(self, shape, dtype=None, **k):
        if self.INTS_AS_OBJECTS and dtype in (int, _np.int32, _np.int64, _np.intp):
            a = _np.empty(shape, dtype=object); a[...] = 1; return a
        if _isfloat(dtype):
            a = _np.empty(shape, dtype=object); a[...] = 1.0; return a
        return _np.ones(shape, dtype, **k)
    def full(self, shape, fill_value, dtype=None, **k):
        if _isfloat(dtype) and not isinstance(fill_value, (bool, _np.bool_)):
            a = _np.empty(shape, dtype=object); a[...] = fill_value; return a
        return _np.full(shape, fill_value, dtype, **k)
    def zeros_like(self, a, dtype=None):
        a = _np.asarray(a)
        if a.dtype == object or dtype is None and a.dtype.kind == "f": return self.zeros(a.shape)
        return _np.zeros_like(a, dtype=dtype)
    def empty_like(self, a, dtype=None): return self.zeros_like(a, dtype)
    def eye(self, n, dtype=None):
        a = self.zeros((n, n))
        for i in range(n): a[i, i] = 1.0
        return a
    def identity(self, n, dtype=None): return self.eye(n)
    FLOATS_AS_OBJECTS = False      # opt-in: np.array(concrete, float) gives an object array too (it may later receive symbolic entries by item assignment)
    def array(self, x, dtype=None, **k):
        if _has_sym(x):
            k.pop("copy", None)
            return _np.array(x, dtype=object)
        if self.FLOATS_AS_OBJECTS and dtype in (float, _np.float64, _F64):
            a = _np.array(x, dtype=_np.float64); out = _np.empty(a.shape, dtype=object)
            for idx in _np.ndindex(a.shape): out[idx] = Sym(z3.RealVal(Fraction(float(a[idx]))))
            return out
        return _np.array(x, dtype=_np_dtype(dtype), **k)
    def asarray(self, x, dtype=None, **k):
        if isinstance(x, _np.ndarray) and x.dtype == object: return x
        if _has_sym(x): return _np.array(x, dtype=object)
        return _np.asarray(x, dtype=dtype, **k)
    def ascontiguousarray(self, x, dtype=None): return self.asarray(x, dtype)
    def asanyarray(self, x, dtype=None): return self.asarray(x, dtype)
    float64 = _F64
    def where(self, c, a=None, b=None):
        c = _np.asarray(c)
        if c.dtype != object: return _np.where(c, a, b) if a is not None else _np.where(c)
        a = _np.broadcast_to(_np.asarray(a, dtype=object), c.shape) if _np.ndim(a) or True else a
        b = _np.broadcast_to(_np.asarray(b, dtype=object), c.shape)
        a, b, c = _np.broadcast_arrays(_np.asarray(a, dtype=object), _np.asarray(b, dtype=object), c)
        out = _np.empty(c.shape, dtype=object)
        for idx in _np.ndindex(c.shape): out[idx] = ite(c[idx], a[idx], b[idx])
        return out.view(SymArray)
    def dot(self, a, b, *k):
        r = _np.dot(a, b, *k)
        return r.view(SymArray) if isinstance(r, _np.ndarray) and r.dtype == object else r
    def isnan(self, x):
        if _has_sym(x): return _np.zeros(_np.shape(x), bool) if _np.ndim(x) else False
        return _np.isnan(x)
    def arctan2(self, a, b):
        if _has_sym(a) or _has_sym(b):
            a, b = _np.broadcast_arrays(_np.asarray(a, dtype=object), _np.asarray(b, dtype=object))
            out = _np.empty(a.shape, dtype=object)
            for idx in _np.ndindex(a.shape): out[idx] = Sym(ATAN2(tz(a[idx]), tz(b[idx])))
            return out if out.ndim else out[()]
        return _np.arctan2(a, b)
    def round(self, x, *a):
        if _has_sym(x): return _elementwise(x, lambda v: v.rint() if isinstance(v, Sym) else _np.round(v))
        return _np.round(x, *a)
    def ceil(self, x):
        if _has_sym(x): return _elementwise(x, lambda v: -((-v).floor()) if isinstance(v, Sym) else _np.ceil(v))
        return _np.ceil(x)
    def floor(self, x):
        if _has_sym(x): return _elementwise(x, lambda v: v.floor() if isinstance(v, Sym) else _np.floor(v))
        return _np.floor(x)
    def abs(self, x):
        if _has_sym(x):
            x = _np.asarray(x, dtype=object); out = _np.empty(x.shape, dtype=object)
            for idx in _np.ndindex(x.shape): out[idx] = abs(x[idx]) if isinstance(x[idx], Sym) else _np.abs(x[idx])
            return out if out.ndim else out[()]
        return _np.abs(x)
    absolute = abs
    def clip(self, x, lo, hi):
        if _has_sym(x):
            x = _np.asarray(x, dtype=object); out = _np.empty(x.shape, dtype=object)
            for idx in _np.ndindex(x.shape):
                v = x[idx]; v = ite(v < lo, lo, v); v = ite(v > hi, hi, v); out[idx] = v
            return out
        return _np.clip(x, lo, hi)
    def bincount(self, x, weights=None, minlength=0):
        if _has_sym(x) and weights is None:
            # the length of the result depends on the values: concretise every (integer valued) element by forking over its feasible values
            vals = []
            for v in _np.asarray(x, dtype=object).ravel():
                if isinstance(v, Sym): vals.append(EX.choose(z3.ToInt(v.t), -1, 4096))
                else: vals.append(int(v))
            return _np.bincount(_np.array(vals, dtype=_np.int64), minlength=minlength)
        return _np.bincount(x, weights, minlength)
    INTS_AS_OBJECTS = False
def _mixed_ufunc(name):
    """object arrays that mix Sym with plain python numbers (np.where(valid, quot, 0)): apply the method / the numpy function per element"""
    def f(self, x, *a, **k):
        if not a and not k and isinstance(x, _np.ndarray) and x.dtype == object:
            out = _np.empty(x.shape, dtype=object)
            for idx in _np.ndindex(x.shape):
                v = x[idx]; out[idx] = getattr(v, name)() if isinstance(v, Sym) else Sym(tz(v))._mixed(name)
            return out.view(type(x)) if isinstance(x, SymArray) else out
        return getattr(_np, name)(x, *a, **k)
    return f
def _sym_mixed(s, name):
    return getattr(s, name)()
Sym._mixed = _sym_mixed
for _n in ("arcsin", "arccos", "sin", "cos", "sqrt", "degrees", "radians"): setattr(NPProxy, _n, _mixed_ufunc(_n))
NP = NPProxy()
class NPProxyMaskIdx(NPProxy):
    """opt-in variant: np.arange(...) can be indexed by a mask of SymBool (solver forks per element)"""
    def arange(self, *a, **k):
        r = _np.arange(*a, **k)
        return r.view(MaskIdxArray) if r.dtype.kind in "iu" else r

class MathProxy:
    """`math` stand-in: dispatches on Sym"""
    pi = _math.pi; e = _math.e
    def __getattr__(s, n): return getattr(_math, n)
    def _d(n):
        def f(s, x, *a):
            if isinstance(x, Sym) or any(isinstance(y, Sym) for y in a):
                x = x if isinstance(x, Sym) else Sym(tz(x))
                return getattr(x, {"atan2": "arctan2", "asin": "arcsin", "acos": "arccos"}.get(n, n))(*a)
            return getattr(_math, n)(x, *a)
        return f
    cos = _d("cos"); sin = _d("sin"); tan = _d("tan"); sqrt = _d("sqrt"); atan2 = _d("atan2"); asin = _d("asin"); acos = _d("acos")
    radians = _d("radians"); degrees = _d("degrees"); floor = _d("floor"); fabs = _d("fabs")
MATH = MathProxy()

class patched:
    """context manager: temporarily replace attributes of modules (np -> NP, math -> MATH, dispatchers -> py_func ...)"""
    def __init__(s, *triples): s.triples = triples; s.saved = []
    def __enter__(s):
        for mod, name, val in s.triples:
            s.saved.append((mod, name, getattr(mod, name, _MISSING))); setattr(mod, name, val)
        return s
    def __exit__(s, *a):
        for mod, name, old in reversed(s.saved):
            if old is _MISSING: delattr(mod, name)
            else: setattr(mod, name, old)
_MISSING = object()

def symbolize(module, extra=()):
    """standard patch set for a module: np/numpy -> NP, math -> MATH (only the names the module really has)"""
    tr = []
    for nm in ("np", "numpy", "n"):
        if getattr(module, nm, None) is _np: tr.append((module, nm, NP))
    if getattr(module, "math", None) is _math: tr.append((module, "math", MATH))
    for nm in ("cos", "sin", "sqrt", "atan2", "asin", "acos", "radians", "degrees", "floor", "fabs"):
        if getattr(module, nm, None) is getattr(_math, nm, _MISSING): tr.append((module, nm, getattr(MATH, nm)))
    tr += list(extra)
    return patched(*tr)

def pyfuncs(module):
    """triples replacing every numba dispatcher / gufunc of a module by its pure-Python function"""
    tr = []
    for nm, v in list(vars(module).items()):
        pf = getattr(v, "py_func", None)
        if pf is None:
            gb = getattr(v, "gufunc_builder", None)
            pf = getattr(gb, "py_func", None) if gb is not None else None
        if pf is not None: tr.append((module, nm, pf))
    return tr

def model_float(m, t):
    """evaluate z3 term under model -> python float (algebraic numbers approximated)"""
    v = m.eval(t, model_completion=True)
    if z3.is_rational_value(v): return float(Fraction(v.numerator_as_long(), v.denominator_as_long()))
    if z3.is_algebraic_value(v):
        a = v.approx(30); return float(Fraction(a.numerator_as_long(), a.denominator_as_long()))
    if z3.is_int_value(v): return float(v.as_long())
    raise ValueError("cannot evaluate %s" % v)
