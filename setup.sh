#!/bin/bash
# Build the tooling overlay venv for the checks (offline). Idempotent.
set -e
cd "$(dirname "$0")"
V=/verif/.venv
if [ ! -x $V/bin/python ] || ! $V/bin/python -c "import z3, crosshair, numpy" 2>/dev/null; then
  rm -rf $V
  /venv/bin/python -m venv $V
  SP=$($V/bin/python -c "import sysconfig; print(sysconfig.get_paths()['purelib'])")
  printf '/venv/lib/python3.12/site-packages\n/repo\n' > $SP/verif_overlay.pth
  PIP_NO_INDEX=1 $V/bin/pip install -q --no-index --find-links /opt/veriftools/wheels z3-solver crosshair-tool >/dev/null
fi
$V/bin/python -c "import z3, crosshair, numpy, ImageD11; print('verif venv ok: z3', z3.get_version_string())"
