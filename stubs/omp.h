#ifndef VERIF_OMP_H
#define VERIF_OMP_H
int omp_get_thread_num(void); int omp_get_num_threads(void); int omp_get_max_threads(void); void omp_set_num_threads(int); double omp_get_wtime(void);
#endif
