/* Public trampolines for functions that src/ marks DLL_LOCAL (hidden), so that the replay harness can call the real
 * compiled code through ctypes.  Compiled into the scratch replay library only; nothing here touches /repo. */
#include <stdint.h>
int connectedpixels(float *, int32_t *, float, int, int, int, int);
int verif_connectedpixels(float *d, int32_t *l, float t, int v, int c8, int ns, int nf) { return connectedpixels(d, l, t, v, c8, ns, nf); }
int32_t *dset_initialise(int32_t); int32_t *dset_new(int32_t **, int32_t *); int32_t *dset_compress(int32_t **, int32_t *);
void dset_makeunion(int32_t *, int32_t, int32_t); int32_t dset_find(int32_t, int32_t *);
int32_t *verif_dset_initialise(int32_t n) { return dset_initialise(n); }
int32_t *verif_dset_new(int32_t **S, int32_t *v) { return dset_new(S, v); }
int32_t *verif_dset_compress(int32_t **S, int32_t *np) { return dset_compress(S, np); }
void verif_dset_makeunion(int32_t *S, int32_t a, int32_t b) { dset_makeunion(S, a, b); }
void merge(double *, double *); void add_pixel(double *, int, int, double, double); void compute_moments(double *, int);
void verif_merge(double *a, double *b) { merge(a, b); }
void verif_add_pixel(double *b, int s, int f, double I, double o) { add_pixel(b, s, f, I, o); }
void verif_compute_moments(double *b, int n) { compute_moments(b, n); }
int inverse3x3(double (*)[3]);
int verif_inverse3x3(double *H) { return inverse3x3((double (*)[3])H); }
